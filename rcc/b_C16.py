"""
C16  Readers are total: a Document, or a ParserException - never anything else.

Bounded run-time contract check on the real readers.

  run_xml(tier, seed)   XMLReader(ignore_errors=False|True).from_string / from_file(file-like) / from_file(path),
                        ODMLReader('XML').from_string (strict) and odml.load (lenient) on
                        arbitrary strings, grammar-generated XML over the odML element names, mutations of valid files
                        + the stored form of a file (section "stored form" below): every combination of encoding
                        (UTF-8, ISO-8859-1, windows-1252, UTF-16 LE/BE; thorough: US-ASCII, UTF-16 without mark, UTF-32,
                        ISO-8859-15, KOI8-R, Shift_JIS, EBCDIC), byte order mark, encoding declaration (missing, matching,
                        wrong, unknown), ASCII-only / Latin-1 / windows-1252-specials / BMP / astral content, LF / CRLF / CR,
                        files larger than a read buffer; byte strings that are no text at all (curated, all short ones,
                        random damage of stored files); odd file names.  Entry points for these: path str, relative path,
                        pathlib.Path, os.PathLike, open binary handle, open text handle, BytesIO, StringIO, read()-only
                        object delivering 7-byte chunks, bytes, str - strict and lenient.
                        + hostile text (section "hostile text" below): ~50 reader problems that produce a message (missing
                        mandatory element, unknown / repeated element, unparsable value / dtype / uncertainty, bad id,
                        cardinality, date, other / no version, attribute, duplicate sibling names, wrong nesting,
                        dependency) x every text position of a tree that uses every element of the format (element text,
                        the problem's own text, text between children, CDATA, comment, processing instruction, attribute
                        values, version attribute) x ~50 texts (%-formats, str.format fields, single braces, backslash and
                        backslash-u / -x / -N escapes, $-templates, quotes, repr-like text, TAB / CR / DEL / C1 / line separator /
                        bidi / zero-width / noncharacter, astral, combining, case-expanding letters, very long text), and
                        unusual NAMES of unknown elements / attributes / namespaces (incl. %-escapes in namespace names).
  run_dict(tier, seed)  DictReader(ignore_errors=False|True).to_odml, ODMLReader('JSON'|'YAML').from_string/from_file
                        on input shaped like an odML dictionary
                        + stored forms of JSON / YAML files (encoding, byte order mark, escaped / raw non-ASCII, flow /
                        block, line ends, file names) through ODMLReader.from_file / odml.load with path str and pathlib.Path
                        + hostile text: ~30 reader problems x every key of a dictionary that uses every key of the format
                        (and unknown keys NAMED by the text, the value list items, odml-version) x the texts above plus C0
                        control characters; tuples as wrong-typed values (a tuple as sole %-argument is spread)
                        + keys that are no text (section "keys that are no text" below) at every mapping level (top level,
                        Document, Section, sub Section, Property, mapping in place of / inside the value list), mixed with
                        the valid text keys (last / first) or alone: Python dictionaries with int, float, nan, bool, None,
                        tuple, bytes, date / datetime / time, frozenset, complex keys and groups of keys without an order
                        between them for DictReader; YAML texts with every YAML 1.1 spelling that yields such a key (on /
                        off / yes / no, numbers in all bases, sexagesimals, .inf / .nan, ~ / null / empty key, timestamps,
                        !!int / !!bool / !!null / !!float / !!binary / !!timestamp / !!str tags, explicit '?' keys), duplicate
                        keys, keys equal across types, merge keys (inline, aliased, lists, nested, repeated), anchored
                        keys and their aliases as keys

Contract clauses (from the statement):
  only-ParserException   the call returns a Document or raises ParserException - no other exception type
  returns-Document       a normal return is a Document
  no-hang                the call ends (generous per-call alarm)
  version                another (non-empty) format version on an odML root  -> InvalidVersionException
  lenient-never-raises   lenient mode, input well-formed with an odML root of the current version -> no exception at all
  lenient-warning        ... and a problem that is certainly present (unknown element / attribute / key) is recorded
  lenient-keeps-valid    ... and objects outside the part that was damaged are all kept
  wellformed             every returned document satisfies harness.wellformed(doc) == []
A lenient call that lets a foreign exception through on acceptable input is reported under both only-ParserException
and lenient-never-raises.  JSON / YAML files in a stored form the format definition does not oblige a reader to take
(JSON with byte order mark or in UTF-16/32, Latin-1 bytes, ...) are judged for termination only.

Scratch files: /verif/.work/c16/p<pid>/ (removed at the end).
"""
from __future__ import annotations

import contextlib
import copy
import datetime as dt
import io
import json
import os
import pathlib
import random
import shutil
import signal
import traceback
import zlib
import warnings
import xml.etree.ElementTree as PyET          # expat based: independent second opinion on well-formedness

import yaml

from rcc import harness as h

import odml                                                    # noqa: E402
from odml.doc import BaseDocument                              # noqa: E402
from odml.tools.xmlparser import XMLReader                     # noqa: E402
from odml.tools.dict_parser import DictReader                  # noqa: E402
from odml.tools.odmlparser import ODMLReader                   # noqa: E402
from odml.tools.parser_utils import ParserException, InvalidVersionException   # noqa: E402

WORK_ROOT = os.path.join(h.WORK, 'c16')
WORK = os.path.join(WORK_ROOT, 'p%d' % os.getpid())        # per process: concurrent runs do not share files
# the generator's own YAML (de)serialisation: libyaml when available (same resolver/constructor, only faster)
_YDUMPER = getattr(yaml, 'CSafeDumper', yaml.SafeDumper)
_YLOADER = getattr(yaml, 'CSafeLoader', yaml.SafeLoader)
CURRENT = '1.1'                 # the format version this library reads (written down, not imported)
TIMEOUT_S = 20


# ---------------------------------------------------------------------------------------------
# running one call
# ---------------------------------------------------------------------------------------------

class _Hang(BaseException):
    pass


def _on_alarm(_sig, _frm):
    raise _Hang()


def _run(fn, *args):
    """('ret', v) | ('exc', e) | ('hang', None)."""
    old = signal.signal(signal.SIGALRM, _on_alarm)
    signal.alarm(TIMEOUT_S)
    try:
        try:
            return 'ret', fn(*args)
        except Exception as exc:                 # noqa
            return 'exc', exc
        except _Hang:
            return 'hang', None
    finally:
        signal.alarm(0)
        signal.signal(signal.SIGALRM, old)


def _fresh_work():
    shutil.rmtree(WORK, ignore_errors=True)
    try:
        os.makedirs(WORK)
    except FileNotFoundError:                # another run removed the (then empty) parent in between
        os.makedirs(WORK)


def _cleanup():
    shutil.rmtree(WORK, ignore_errors=True)
    try:
        os.rmdir(WORK_ROOT)                  # only when no other run is using it
    except OSError:
        pass


@contextlib.contextmanager
def _silence():
    buf = io.StringIO()
    with warnings.catch_warnings():
        warnings.simplefilter('ignore')
        with contextlib.redirect_stdout(buf), contextlib.redirect_stderr(buf):
            yield


def _site(exc):
    """Stable label of where an exception came from: outermost reader frame that let it through and the
    innermost library frame that raised it (no line numbers)."""
    frames = traceback.extract_tb(exc.__traceback__)
    lib = [f for f in frames if os.sep + 'odml' + os.sep in f.filename]
    readers = [f for f in lib if os.path.basename(f.filename) in ('xmlparser.py', 'dict_parser.py', 'odmlparser.py')]
    inner = lib[-1] if lib else (frames[-1] if frames else None)
    rd = readers[-1] if readers else None

    def lab(f):
        return '%s:%s' % (os.path.basename(f.filename), f.name) if f is not None else '?'
    if rd is inner:
        return lab(rd)
    return '%s<-%s' % (lab(rd), lab(inner))


def _wf_kind(problem):
    for key in ('duplicate section names', 'duplicate property names', 'empty name', 'not a canonical uuid',
                'malformed', 'document id', 'but parent is', 'listed twice', 'non-section', 'non-property',
                'own ancestor', 'cycle'):
        if key in problem:
            return key
    return problem[:30]


def _paths(doc):
    """Name paths of all sections and properties of a returned document (private fields)."""
    out = set()

    def nm(x):
        return x if isinstance(x, str) or x is None else ('non-str', repr(x))

    def rec(node, prefix):
        for s in list.__iter__(node._sections):
            p = prefix + (('S', nm(s._name)),)
            out.add(p)
            for q in list.__iter__(s._props):
                out.add(p + (('P', nm(q._name)),))
            rec(s, p)
    rec(doc, ())
    return out


class _Checker(object):
    """Applies the contract clauses to one call outcome."""

    PER_CLASS = 3           # witnesses recorded per failure class (all occurrences are counted in `counts`)

    def __init__(self, col, part):
        self.real_col = col
        self.col = self         # the clauses below report through self.fail
        self.part = part
        self.counts = {}
        self.unjudged = 0
        self.hang_only = 0      # cases outside the statement's quantifier: only termination is judged
        col.max_failures = 600

    def fail(self, check, cls, witness, detail):
        key = (check, tuple(sorted(cls.items())))
        self.counts[key] = self.counts.get(key, 0) + 1
        if self.counts[key] <= self.PER_CLASS:
            self.real_col.fail(check=check, cls=cls, witness=witness, detail=detail)

    def check(self, case, entry, lenient, outcome, reader_warnings):
        """case: dict(fam, feat, witness, wf_root_ok, other_version, problem, keep)"""
        col, part = self.col, self.part
        kind, val = outcome
        mode = 'lenient' if lenient else 'strict'
        wit = dict(case['witness'])
        wit.update({'entry': entry, 'mode': mode, 'family': case['fam'], 'feature': case['feat']})
        if kind == 'hang':
            col.fail(check=part + '/no-hang', cls={'clause': 'no-hang', 'feature': '%s/%s' % (case['fam'], entry)},
                     witness=wit, detail='call did not end within %d s' % TIMEOUT_S)
            return
        if case.get('judge') == 'no-hang-only':
            self.hang_only += 1
            return
        if kind == 'exc':
            if not isinstance(val, ParserException):
                col.fail(check=part + '/only-ParserException',
                         cls={'clause': 'only-ParserException',
                              'feature': '%s@%s' % (type(val).__name__, _site(val))},
                         witness=wit,
                         detail='%s raised %s: %s; contract: a Document or ParserException, nothing else'
                                % (entry, type(val).__name__, str(val)[:160]))
                if not (lenient and case['wf_root_ok']):
                    return
                # a lenient reader that lets a foreign exception through on acceptable input breaks that clause as well
            if case['other_version'] and not isinstance(val, InvalidVersionException):
                col.fail(check=part + '/version',
                         cls={'clause': 'version', 'feature': 'ParserException@%s' % _site(val)},
                         witness=wit,
                         detail='input has another format version; raised plain ParserException (%s); contract: '
                                'InvalidVersionException' % str(val)[:120])
            if lenient and case['wf_root_ok']:
                col.fail(check=part + '/lenient-never-raises',
                         cls={'clause': 'lenient-never-raises',
                              'feature': '%s@%s' % (type(val).__name__, _site(val))},
                         witness=wit,
                         detail='lenient %s raised %s: %s on well-formed input with a current-version odML root; '
                                'contract: never raises, records a warning' % (entry, type(val).__name__, str(val)[:160]))
            return
        # normal return
        if not isinstance(val, BaseDocument):
            col.fail(check=part + '/returns-Document',
                     cls={'clause': 'returns-Document', 'feature': '%s/%s' % (type(val).__name__, entry)},
                     witness=wit, detail='%s returned %r; contract: a Document or ParserException' % (entry, val))
            return
        if case['other_version']:
            col.fail(check=part + '/version', cls={'clause': 'version', 'feature': 'returned-document'},
                     witness=wit, detail='input has another format version but a Document was returned')
        try:
            probs = h.wellformed(val)
        except TypeError:
            # harness.wellformed needs hashable names; a reader that lets a list/dict through as a name is not
            # covered by the statement's wording, so such a document is only counted, not judged
            self.unjudged += 1
            probs = []
        if probs:
            col.fail(check=part + '/wellformed',
                     cls={'clause': 'wellformed', 'feature': '%s/%s' % (_wf_kind(probs[0]), mode)},
                     witness=wit, detail='returned document is not well-formed: %s' % '; '.join(probs)[:300])
        if lenient and case['wf_root_ok']:
            if case['problem'] and reader_warnings is not None and not reader_warnings:
                col.fail(check=part + '/lenient-warning',
                         cls={'clause': 'lenient-warning', 'feature': case['fam']},
                         witness=wit, detail='input contains %s but the reader recorded no warning' % case['feat'])
            if case['keep'] is not None:
                missing = sorted(case['keep'] - _paths(val))
                if missing:
                    col.fail(check=part + '/lenient-keeps-valid',
                             cls={'clause': 'lenient-keeps-valid', 'feature': case['fam']},
                             witness=wit,
                             detail='objects outside the damaged part are missing from the result: %r' % (missing[:4],))


def _result(col, chk):
    res = col.result()
    res['failure_class_counts'] = sorted(('%s %s' % (k[0], dict(k[1]).get('feature')), n) for k, n in chk.counts.items())
    res['returned_documents_not_judged_for_wellformedness'] = chk.unjudged
    res['evaluations_judged_for_termination_only'] = chk.hang_only
    return res


# =============================================================================================
# XML
# =============================================================================================

class N(object):
    """Element of the little XML model used by the generators (serialised by _ser, never by lxml)."""
    __slots__ = ('tag', 'text', 'kids', 'attrs')

    def __init__(self, tag, text=None, kids=None, attrs=None):
        self.tag = tag
        self.text = text
        self.kids = list(kids or [])
        self.attrs = list(attrs or [])

    def copy(self):
        return N(self.tag, self.text, [k.copy() for k in self.kids], list(self.attrs))


class R(object):
    """Raw markup between children: comment, processing instruction, CDATA, entity reference, stray text."""
    __slots__ = ('s',)

    def __init__(self, s):
        self.s = s

    def copy(self):
        return R(self.s)


def _esc(t):
    # a carriage return must travel as a character reference, a literal one is normalised away by XML parsers
    return t.replace('&', '&amp;').replace('<', '&lt;').replace('>', '&gt;').replace('\r', '&#13;')


def _ser(n):
    if isinstance(n, R):
        return n.s
    attrs = ''.join(' %s="%s"' % (k, _esc(v).replace('"', '&quot;')) for k, v in n.attrs)
    inner = (_esc(n.text) if n.text is not None else '') + ''.join(_ser(k) for k in n.kids)
    if n.text is None and not n.kids:
        return '<%s%s/>' % (n.tag, attrs)
    return '<%s%s>%s</%s>' % (n.tag, attrs, inner, n.tag)


UUIDS = ['7e5b6a0c-1f4e-4b5a-9c3d-2a1b0c9d8e7f', '0f1e2d3c-4b5a-4697-8a9b-0c1d2e3f4a5b',
         '11111111-2222-4333-8444-555555555555', '99999999-8888-4777-8666-555555555554']

DOC_TAGS = ['author', 'version', 'date', 'repository', 'id']
SEC_TAGS = ['name', 'type', 'id', 'definition', 'reference', 'link', 'include', 'repository', 'sec_cardinality',
            'prop_cardinality']
PROP_TAGS = ['name', 'value', 'type', 'unit', 'uncertainty', 'id', 'definition', 'dependency', 'dependencyvalue',
             'reference', 'value_origin', 'val_cardinality']
OBJ_TAGS = ['section', 'property', 'odML']
ALL_TAGS = sorted(set(DOC_TAGS + SEC_TAGS + PROP_TAGS)) + OBJ_TAGS
ODD_TAGS = ['foo', 'Name', 'NAME', 'Section', 'PROPERTY', 'Value', 'odml', 'values', 'dtype', 'oid', 'x-y', '_', 'sections']

GENERIC_TEXT = [None, '', ' ', 'abc', 'é²٣', '1', '-1', '1.5', 'None', 'x' * 300, 'a\nb', ' pad ', '<&>"\'']
DATE_TEXT = ['2020-01-02', '2020-13-45', 'yesterday', '2020-01-02 10:11:12', '٢٠٢٠-٠١-٠٢', '2020-1-2', '0000-00-00',
             '20200102', '2020-02-30']
ID_TEXT = [UUIDS[0], UUIDS[0].upper(), 'not-a-uuid', '{%s}' % UUIDS[1], 'urn:uuid:' + UUIDS[1], '1' * 32, '1' * 31,
           'g' * 32]
CARD_TEXT = ['(1, 2)', '(None, 2)', '(1, None)', '(2, 1)', '(1, 1)', '(-1, 2)', '(², 3)', '(٣, 5)', '(1, ٣)', '(1, ²)',
             '1,2', '(1;2)', '(1, 2, 3)', '()', '(,)', '(a, b)', '(1.5, 2)', '( 1 , 2 )', '[1, 2]', '(0, 0)',
             '(0, None)', '(None, None)', '(١, ٢)', '(+1, 2)', '(1_0, 20)', '(1', ')', '(', '(  ,  )', '(None,)',
             '(⑤, 9)', '(1e1, 20)', '(0x1, 2)', '(00, 01)']
DTYPE_TEXT = ['int', 'string', 'float', 'boolean', 'date', 'datetime', 'time', 'text', 'url', 'person', '2-tuple',
              '3-tuple', '0-tuple', 'x-tuple', '-tuple', '²-tuple', '-1-tuple', '1.5-tuple', 'tuple', 'unknown', 'INT',
              'Int', 'str', 'bool']
VALUE_TEXT = ['x', 'abc', '1', '[1,2]', '[1,b]', '[]', '[', ']', '[a', 'a]', '(1;2)', '(1;2;3)', '[(1;2),(3;4)]', '(1)',
              '()', '(;)', '"', 'a"b,c', '[a"b,c]', '["a,b",c]', '[\n]', 'True', 'maybe', '[True,0]', '2020-13-01',
              '2020-01-02', '25:00:00', '12:30:01', '2020-01-02 03:04:05', '²', '٣', 'inf', 'nan', '1e999', '-0', '[,]',
              '[ 1 , 2 ]', '1.0', '0x10', '1_000', '[[1]]', ' ', 'é²٣', '[' + ','.join(['7'] * 400) + ']', '[a,,b]',
              '[1;2]', '(1;2', '1;2)', '[(1;2),(3)]', '[(1;2)(3;4)]', '((1;2))',
              # text the csv layer may choke on: bare carriage return / line separators / unbalanced quotes in a list
              '[a\rb]', '[a\rb,c]', 'a\rb', '[a\u2028b,c]', '["a]', '[a,"b]', '["a""]', '[\x85]', '["a"b,c]']
UNC_TEXT = ['0.5', 'abc', '²', 'nan', 'inf', '-1', '1e999', '1,5', '[1]']
NAME_TEXT = ['zz_new', 'a/b', '..', '/', 'é²٣', ' lead', UUIDS[2]]
STYPE_TEXT = ['t', 'n.s.', 'a/b']


def _text_pool(tag):
    t = tag.lower()
    if t == 'date':
        return DATE_TEXT
    if t in ('id', 'oid'):
        return ID_TEXT
    if t.endswith('cardinality'):
        return CARD_TEXT
    if t in ('value', 'values'):
        return VALUE_TEXT
    if t == 'uncertainty':
        return UNC_TEXT
    if t == 'name':
        return NAME_TEXT
    if t in ('type', 'dtype'):
        return DTYPE_TEXT + STYPE_TEXT
    return []


def _base_tree():
    prop = N('property', kids=[N('name', 'p1'), N('value', 'x'), N('type', 'string')])
    prop2 = N('property', kids=[N('name', 'p2'), N('value', '[1,2]'), N('type', 'int')])
    sub = N('section', kids=[N('name', 's2'), N('type', 't'), prop2])
    sec = N('section', kids=[N('name', 's1'), N('type', 't'), prop, sub])
    root = N('odML', kids=[N('author', 'me'), sec], attrs=[('version', CURRENT)])
    return root, sec, prop


BASE_PATHS = {(('S', 's1'),), (('S', 's1'), ('P', 'p1')), (('S', 's1'), ('S', 's2')),
              (('S', 's1'), ('S', 's2'), ('P', 'p2'))}


def _xcase(text, fam, feat, wf=None, problem=False, keep=None, witness=None):
    return {'text': text, 'fam': fam, 'feat': feat, 'wf': wf, 'problem': problem, 'keep': keep,
            'witness': witness if witness is not None else {'text': text if len(text) <= 600 else text[:600] + '...'}}


def _xml_systematic(tier):
    """Single-feature variations of a small valid tree."""
    quick = tier == 'quick'
    ctxs = ['odML', 'section', 'property']

    def ctx_node(name):
        root, sec, prop = _base_tree()
        return root, {'odML': root, 'section': sec, 'property': prop}[name]

    # keep sets: objects outside the element that received the odd child
    keep_for = {'odML': BASE_PATHS, 'section': set(), 'property': BASE_PATHS - {(('S', 's1'), ('P', 'p1'))}}
    # F1: one extra child element (known / unknown / differently cased tag) with pooled text, once and twice
    for ctx in ctxs:
        for tag in ALL_TAGS + ODD_TAGS:
            pool = list(GENERIC_TEXT[:6] if quick else GENERIC_TEXT) + _text_pool(tag)
            for ti, text in enumerate(pool):
                for count in (1, 2):
                    if count == 2 and ti >= 2:
                        continue
                    root, node = ctx_node(ctx)
                    for _ in range(count):
                        node.kids.append(N(tag, text))
                    unknown = tag in ('foo', 'x-y', '_')
                    structural = tag.lower() in ('section', 'property', 'odml', 'sections')
                    yield _xcase(_ser(root), 'extra-child',
                                 '<%s>%s in <%s> x%d' % (tag, 'None' if text is None else repr(text[:12]), ctx, count),
                                 wf=True, problem=unknown,
                                 keep=None if structural else keep_for[ctx])
    # F1b: the pooled texts on the element that is already there (replace text)
    for ctx, tag_list in (('odML', ['author']), ('section', ['name', 'type']), ('property', ['name', 'value', 'type'])):
        for tag in tag_list:
            for text in list(GENERIC_TEXT) + _text_pool(tag):
                root, node = ctx_node(ctx)
                for k in node.kids:
                    if isinstance(k, N) and k.tag == tag:
                        k.text = text
                        break
                yield _xcase(_ser(root), 'replace-text', '<%s> of <%s> := %s'
                             % (tag, ctx, 'None' if text is None else repr(text[:12])), wf=True, keep=keep_for[ctx])
    # dtype x value matrix on the property
    for di, dtype in enumerate(DTYPE_TEXT):
        for vi, value in enumerate(VALUE_TEXT):
            if quick and (di + vi) % 2:
                continue                        # quick tier: checkerboard half of the matrix
            root, _sec, prop = _base_tree()
            prop.kids[1].text = value
            prop.kids[2].text = dtype
            yield _xcase(_ser(root), 'dtype-value', 'type=%s value=%r' % (dtype, value[:12]), wf=True,
                         keep=keep_for['property'])
    # F2: missing elements
    for ctx in ctxs:
        root, node = ctx_node(ctx)
        for i in range(len(node.kids)):
            root2, node2 = ctx_node(ctx)
            gone = node2.kids.pop(i)
            yield _xcase(_ser(root2), 'missing', '<%s> removed from <%s>' % (gone.tag, ctx), wf=True)
        root2, node2 = ctx_node(ctx)
        node2.kids = []
        yield _xcase(_ser(root2), 'missing', 'all children removed from <%s>' % ctx, wf=True)
    # F3: wrong nesting
    nestings = {
        'property in odML': lambda r, s, p: r.kids.append(p.copy()),
        'section in property': lambda r, s, p: p.kids.append(N('section', kids=[N('name', 'q'), N('type', 't')])),
        'property in property': lambda r, s, p: p.kids.append(p.copy()),
        'odML in section': lambda r, s, p: s.kids.append(N('odML', attrs=[('version', CURRENT)])),
        'odML in odML': lambda r, s, p: r.kids.append(N('odML', attrs=[('version', CURRENT)], kids=[s.copy()])),
        'value in section': lambda r, s, p: s.kids.append(N('value', 'x')),
        'name in name': lambda r, s, p: s.kids[0].kids.append(N('name', 'y')),
        'section in name': lambda r, s, p: s.kids[0].kids.append(N('section', kids=[N('name', 'q'), N('type', 't')])),
        'text beside children in section': lambda r, s, p: s.kids.insert(1, R('stray text')),
        'text beside children in odML': lambda r, s, p: r.kids.insert(0, R('stray text')),
        'section without children': lambda r, s, p: r.kids.append(N('section')),
        'section with text only': lambda r, s, p: r.kids.append(N('section', 'abc')),
        'property with text only': lambda r, s, p: s.kids.append(N('property', 'abc')),
    }
    for label, fn in nestings.items():
        root, sec, prop = _base_tree()
        fn(root, sec, prop)
        yield _xcase(_ser(root), 'nesting', label, wf=True)
    for depth in (30, 120, 250, 400):
        node = None
        for d in range(depth, 0, -1):
            node = N('section', kids=[N('name', 'd%d' % d), N('type', 't')] + ([node] if node else []))
        root = N('odML', kids=[node], attrs=[('version', CURRENT)])
        # libxml2 refuses more than 256 levels: only the shallow ones are certainly accepted as well-formed
        yield _xcase(_ser(root), 'nesting', 'sections nested %d deep' % depth, wf=True if depth <= 120 else None,
                     witness={'depth': depth})
    # F4: attributes
    for ver in [None, '', '1', '1.0', '1.1 ', ' 1.1', '1.10', '2', 'abc', '1.1.0', '01.1', 'é', '1,1']:
        root, _, _ = _base_tree()
        root.attrs = [] if ver is None else [('version', ver)]
        yield _xcase(_ser(root), 'root-version', 'version=%r' % (ver,), wf=True)
    attr_cases = {
        'Version= on root': lambda r, s, p: setattr(r, 'attrs', [('Version', CURRENT)]),
        'VERSION= beside version on root': lambda r, s, p: r.attrs.append(('VERSION', '2')),
        'foo= on root': lambda r, s, p: r.attrs.append(('foo', '1')),
        'version= on section': lambda r, s, p: s.attrs.append(('version', CURRENT)),
        'foo= on section': lambda r, s, p: s.attrs.append(('foo', 'bar')),
        'name= on section': lambda r, s, p: s.attrs.append(('name', 'attrname')),
        'foo= on property': lambda r, s, p: p.attrs.append(('foo', 'bar')),
        'foo= on name': lambda r, s, p: s.kids[0].attrs.append(('foo', 'bar')),
        'xml:lang on value': lambda r, s, p: p.kids[1].attrs.append(('xml:lang', 'en')),
        'xml:space on section': lambda r, s, p: s.attrs.append(('xml:space', 'preserve')),
    }
    for label, fn in attr_cases.items():
        root, sec, prop = _base_tree()
        fn(root, sec, prop)
        yield _xcase(_ser(root), 'attribute', label, wf=True,
                     problem=label not in ('Version= on root', 'VERSION= beside version on root', 'xml:lang on value',
                                           'xml:space on section', 'foo= on name'))
    ns_cases = {
        'default namespace on root': '<odML xmlns="http://example.org/n" version="1.1"><author>me</author></odML>',
        'prefixed root': '<o:odML xmlns:o="http://example.org/n" version="1.1"/>',
        'prefixed child': '<odML xmlns:o="http://example.org/n" version="1.1"><o:author>me</o:author></odML>',
        'namespaced section': '<odML version="1.1"><section xmlns="http://example.org/n"><name>s</name><type>t</type>'
                              '</section></odML>',
        'unbound prefix': '<odML version="1.1"><o:author>me</o:author></odML>',
        'duplicate attribute': '<odML version="1.1" version="1.1"/>',
        'namespaced version attribute': '<odML xmlns:o="http://example.org/n" o:version="1.1"/>',
    }
    for label, text in ns_cases.items():
        yield _xcase(text, 'namespace', label, wf=None)
    # F5: duplicates
    dup_cases = {
        'two top-level sections with one name': lambda r, s, p: r.kids.append(N('section', kids=[N('name', 's1'), N('type', 't')])),
        'two top-level sections with one name, other type': lambda r, s, p: r.kids.append(N('section', kids=[N('name', 's1'), N('type', 'u')])),
        'two subsections with one name': lambda r, s, p: s.kids.append(N('section', kids=[N('name', 's2'), N('type', 't')])),
        'two properties with one name': lambda r, s, p: s.kids.append(N('property', kids=[N('name', 'p1'), N('value', 'y')])),
        'property and subsection with one name': lambda r, s, p: s.kids.append(N('property', kids=[N('name', 's2')])),
        'two unnamed sections': lambda r, s, p: r.kids.extend([N('section', kids=[N('type', 't')]), N('section', kids=[N('type', 't')])]),
        'two empty-named sections': lambda r, s, p: r.kids.extend([N('section', kids=[N('name', ''), N('type', 't')]), N('section', kids=[N('name'), N('type', 't')])]),
        'section named like own id twice': lambda r, s, p: r.kids.extend([N('section', kids=[N('name', UUIDS[3]), N('id', UUIDS[3]), N('type', 't')]), N('section', kids=[N('id', UUIDS[3]), N('type', 't')])]),
        'same id on two sections': lambda r, s, p: (s.kids.append(N('id', UUIDS[0])), s.kids[3].kids.append(N('id', UUIDS[0]))),
        'same id on section and document': lambda r, s, p: (s.kids.append(N('id', UUIDS[0])), r.kids.append(N('id', UUIDS[0]))),
        'same id on two properties': lambda r, s, p: (p.kids.append(N('id', UUIDS[0])), s.kids[3].kids[2].kids.append(N('id', UUIDS[0]))),
        'whole section repeated': lambda r, s, p: r.kids.append(s.copy()),
        'whole property repeated': lambda r, s, p: s.kids.append(p.copy()),
    }
    for label, fn in dup_cases.items():
        root, sec, prop = _base_tree()
        fn(root, sec, prop)
        yield _xcase(_ser(root), 'duplicate', label, wf=True)
    # F6: processing instructions, comments, CDATA, entities
    snippets = {
        'processing instruction': ('<?foo bar?>', True),
        'processing instruction without data': ('<?foo?>', True),
        'xml-stylesheet instruction': ('<?xml-stylesheet type="text/xsl" href="odml.xsl"?>', True),
        'xml declaration inside': ('<?xml version="1.0"?>', False),
        'comment': ('<!-- a comment -->', True),
        'comment with markup': ('<!-- <section><name>c</name></section> -->', True),
        'comment with double hyphen': ('<!-- a -- b -->', False),
        'CDATA': ('<![CDATA[<x>&]]>', True),
        'empty CDATA': ('<![CDATA[]]>', True),
        'predefined entity': ('&amp;&lt;&gt;&quot;&apos;', True),
        'character reference': ('&#233;&#x663;', True),
        'character reference to NUL': ('&#0;', False),
        'character reference to VT': ('&#11;', False),
        'undefined entity': ('&nbsp;', False),
        'bare ampersand': ('&', False),
        'bare less-than': ('<', False),
        'CDATA end marker in text': (']]>', False),
        'control character': ('\x0b', False),
        'NUL character': ('\x00', False),
        'U+FFFE': ('\ufffe', False),
        'astral character': ('\U0001F600', True),
    }
    places = ['child of odML', 'child of section', 'child of property', 'inside name', 'inside value', 'inside author']
    for label, (snip, wf) in snippets.items():
        for place in places:
            root, sec, prop = _base_tree()
            if place == 'child of odML':
                root.kids.insert(1, R(snip))
            elif place == 'child of section':
                sec.kids.insert(2, R(snip))
            elif place == 'child of property':
                prop.kids.insert(1, R(snip))
            elif place == 'inside name':
                sec.kids[0].kids.append(R(snip))
            elif place == 'inside value':
                prop.kids[1].kids.append(R(snip))
            else:
                root.kids[0].kids.append(R(snip))
            yield _xcase(_ser(root), 'markup', '%s %s' % (label, place), wf=True if wf else False)
    body = _ser(_base_tree()[0])
    around = {
        'xml declaration without encoding': ('<?xml version="1.0"?>\n' + body, True),
        'xml declaration with encoding UTF-8': ('<?xml version="1.0" encoding="UTF-8"?>\n' + body, True),
        'xml declaration with encoding utf-8 and stylesheet instruction':
            ('<?xml version="1.0" encoding="utf-8"?>\n<?xml-stylesheet  type="text/xsl" href="odmlDocument.xsl"?>\n' + body, True),
        'xml declaration with encoding ascii': ('<?xml version="1.0" encoding="ascii"?>' + body, True),
        'xml declaration standalone': ('<?xml version="1.0" standalone="yes"?>' + body, True),
        'xml version 1.1 declaration': ('<?xml version="1.1"?>' + body, None),
        'processing instruction before root': ('<?foo bar?>' + body, True),
        'processing instruction after root': (body + '<?foo bar?>', True),
        'comment before root': ('<!-- c -->' + body, True),
        'comment after root': (body + '\n<!-- c -->\n', True),
        'whitespace around root': ('\n  ' + body + '\n  ', True),
        'doctype without subset': ('<!DOCTYPE odML>' + body, True),
        'doctype with internal entity used': ('<!DOCTYPE odML [<!ENTITY e "v">]>' + body.replace('>me<', '>&e;<'), None),
        'doctype with element entity used': ('<!DOCTYPE odML [<!ENTITY e "<section><name>e</name><type>t</type></section>">]>'
                                             + body.replace('<author>me</author>', '<author>me</author>&e;'), None),
        'doctype with nested entities': ('<!DOCTYPE odML [<!ENTITY a "aaaaaaaaaa"><!ENTITY b "&a;&a;&a;&a;&a;&a;&a;&a;">'
                                         '<!ENTITY c "&b;&b;&b;&b;&b;&b;&b;&b;"><!ENTITY d "&c;&c;&c;&c;&c;&c;&c;&c;">]>'
                                         + body.replace('>me<', '>&d;<'), None),
        'doctype with entity expansion bomb': ('<!DOCTYPE odML [<!ENTITY a "aaaaaaaaaa">'
                                               + ''.join('<!ENTITY %s "%s">' % (chr(98 + i), ('&%s;' % chr(97 + i)) * 10)
                                                         for i in range(9)) + ']>' + body.replace('>me<', '>&j;<'), None),
        'doctype with missing external entity': ('<!DOCTYPE odML [<!ENTITY e SYSTEM "file:///verif/.work/c16/nonexistent.ent">]>'
                                                 + body.replace('>me<', '>&e;<'), None),
        'doctype with attribute default': ('<!DOCTYPE odML [<!ATTLIST section foo CDATA "dflt">]>' + body, None),
        'two roots': (body + body, False),
        'text after root': (body + 'x', False),
        'byte order mark in text': ('\ufeff' + body, None),
        'unclosed root': (body[:-7], False),
        'mismatched end tag': (body.replace('</author>', '</Author>'), False),
    }
    for label, (text, wf) in around.items():
        yield _xcase(text, 'prolog-epilog', label, wf=wf)
    # F8: dependencies (resolved by the validation pass that ODMLReader / odml.load run after parsing)
    dep_cases = {
        'dependency names a subsection': ('s2', 'v', None),
        'dependency names the property itself': ('p1', 'x', None),
        'dependency names a sibling property without values': ('p1b', 'v', N('property', kids=[N('name', 'p1b')])),
        'dependency names a sibling property, value matches': ('p1b', 'w', N('property', kids=[N('name', 'p1b'), N('value', 'w')])),
        'dependency names a sibling property, value differs': ('p1b', 'v', N('property', kids=[N('name', 'p1b'), N('value', '[1,2]'), N('type', 'int')])),
        'dependency names nothing': ('nowhere', 'v', None),
        'dependency value without dependency': (None, 'v', None),
    }
    for label, (dep, depval, sibling) in dep_cases.items():
        root, sec, prop = _base_tree()
        if dep is not None:
            prop.kids.append(N('dependency', dep))
        prop.kids.append(N('dependencyvalue', depval))
        if sibling is not None:
            sec.kids.insert(3, sibling)
        yield _xcase(_ser(root), 'dependency', label, wf=True, keep=BASE_PATHS)
    # F7: root element variants
    for rt in ['odml', 'ODML', 'OdML', 'odML ', 'section', 'property', 'Document', 'a']:
        yield _xcase('<%s version="1.1"><author>me</author></%s>' % (rt, rt.strip()), 'root-tag', rt, wf=True)


ARB_ALPHABET = ['<', '>', '/', '&', ';', '"', '=', '?', '!', '-', '[', ']', ' ', 'a', 'o', '1', '\n', '\x00', 'é', '#']
ARB_CURATED = [
    ('', None), ('<odML/>', True), ('<odML version="1.1"/>', True), ('<odML version="1.1">', False),
    ('<odML version="1.1"></odML', False), (' <odML version="1.1"/>', True), ('<odML version=1.1/>', False),
    ("<odML version='1.1'/>", True), ('<odML\nversion\n=\n"1.1"\n/>', True), ('<odML version="1.1" />\n', True),
    ('<odML version="&#49;.1"/>', True), ('<odML version="1.1"></odML >', True),
    ('<odml version="1.1"/>', True), ('<a/>', True), ('<a/><b/>', False), ('null', False), ('{}', False),
    ('{"Document": {}, "odml-version": "1.1"}', False), ('Document: {}\nodml-version: "1.1"\n', False),
    ('<!-- c -->', False), ('<?xml version="1.0"?>', False), ('<?xml version="1.0"?><odML version="1.1"/>', True),
    ('<?xml version="1.0" encoding="UTF-8"?><odML version="1.1"/>', True),
    ('<?xml version="1.0" encoding="latin-1"?><odML version="1.1"/>', None),
    ('<?xml version="1.0" encoding="utf-16"?><odML version="1.1"/>', None),
    ('<?xml version="1.0" encoding="bogus-enc"?><odML version="1.1"/>', None),
    ('<?xml version="2.0"?><odML version="1.1"/>', None), ('<!DOCTYPE odML><odML version="1.1"/>', True),
    ('<!DOCTYPE html>', False), ('&amp;', False), (']]>', False), ('<![CDATA[x]]>', False), ('\ud800', None),
    ('<odML version="1.1">\ud800</odML>', None), ('<odML version="1.1"><author>\udcff</author></odML>', None),
    ('a' * 20000, False), ('<' * 2000, False), ('<a>' * 300 + '</a>' * 300, None),
    ('<odML version="1.1">' + '<x>' * 300 + '</x>' * 300 + '</odML>', None),
    ('<odML version="1.1"><author>' + 'y' * 200000 + '</author></odML>', True),
    ('<odML version="1.1">' + '<section><name>n</name><type>t</type></section>' * 3 + '</odML>', True),
]
ARB_TOKENS = ['<odML version="1.1">', '<odML>', '</odML>', '<section>', '</section>', '<property>', '</property>',
              '<name>', '</name>', '<type>', '</type>', '<value>', '</value>', '<id>', '</id>', 'x', 't', '1', '<', '>',
              '&', '&amp;', '<!--', '-->', '<?', '?>', '<?p?>', '<![CDATA[', ']]>', '"', "'", ' version="1.1"', '/>', '</',
              ' ', '\n', 'é', '<date>', '</date>', '2020-01-02', '(1, 2)', '<val_cardinality>', '</val_cardinality>',
              '[', ']', ',', '<a>', '</a>']


def _xml_arbitrary(tier, rnd):
    for text, wf in ARB_CURATED:
        yield _xcase(text, 'arbitrary-curated', repr(text[:40]), wf=wf)
    maxlen = 2 if tier == 'quick' else 3

    def words(n):
        if n == 0:
            yield ''
            return
        for w in words(n - 1):
            for c in ARB_ALPHABET:
                yield w + c
    for n in range(1, maxlen + 1):
        for w in words(n):
            yield _xcase(w, 'arbitrary-short', 'all strings of length %d over 20 characters' % n, wf=None)
    for _ in range(600 if tier == 'quick' else 20000):
        text = ''.join(rnd.choice(ARB_TOKENS) for _ in range(rnd.randint(1, 10)))
        yield _xcase(text, 'arbitrary-tokens', 'random token string', wf=None)


RAND_HOSTILE = ['%s 5% {0} { \\u12 \U0001F600 \u0130 100%', '%', '%(x)s', '{}', 'C:\\dir\\']


def _rand_tree(rnd):
    """Random tree over the odML element names; returns (root, flags)."""
    flags = {'wf': True}

    def text_for(tag):
        pool = list(GENERIC_TEXT) + _text_pool(tag) * 2 + RAND_HOSTILE
        return rnd.choice(pool)

    def kids_for(ctx, depth):
        out = []
        own = {'odML': DOC_TAGS, 'section': SEC_TAGS, 'property': PROP_TAGS}.get(ctx, [])
        # mostly plausible: the mandatory children first
        if ctx == 'section':
            if rnd.random() < 0.85:
                out.append(N('name', rnd.choice(['a', 'b', 'a', 'c', '', 'é'])))
            if rnd.random() < 0.85:
                out.append(N('type', rnd.choice(['t', 'u', '', 'n.s.'])))
        if ctx == 'property':
            if rnd.random() < 0.85:
                out.append(N('name', rnd.choice(['p', 'q', 'p', '', 'é'])))
            if rnd.random() < 0.6:
                out.append(N('type', rnd.choice(DTYPE_TEXT)))
            if rnd.random() < 0.7:
                out.append(N('value', rnd.choice(VALUE_TEXT)))
        for _ in range(rnd.choice([0, 0, 1, 1, 2, 3, 5])):
            r = rnd.random()
            if r < 0.45 and own:
                tag = rnd.choice(own)
            elif r < 0.6:
                tag = rnd.choice(ALL_TAGS)
            elif r < 0.7:
                tag = rnd.choice(ODD_TAGS)
            elif r < 0.95:
                tag = rnd.choice(['section', 'section', 'property', 'property', 'odML'])
            else:
                out.append(R(rnd.choice(['<?foo bar?>', '<!-- c -->', '<![CDATA[x]]>', 'stray', '&amp;', '&#233;'])))
                continue
            low = tag.lower()
            if low in ('section', 'property', 'odml') and depth < 4 and rnd.random() < 0.9:
                node = N(tag, kids=kids_for({'odml': 'odML'}.get(low, low), depth + 1))
            else:
                node = N(tag, text_for(tag))
                if rnd.random() < 0.05:
                    node.kids = kids_for(rnd.choice(['section', 'property']), depth + 1)
            if rnd.random() < 0.04:
                node.attrs.append((rnd.choice(['foo', 'version', 'id', 'name']), rnd.choice(['1', CURRENT, 'x'])))
            out.append(node)
        rnd.shuffle(out) if rnd.random() < 0.3 else None
        return out

    root = N('odML', kids=kids_for('odML', 0), attrs=[('version', CURRENT)])
    r = rnd.random()
    if r < 0.03:
        root.attrs = [('version', rnd.choice(['1.0', '2', '1', 'x']))]
    elif r < 0.05:
        root.attrs = []
    elif r < 0.07:
        root.tag = rnd.choice(['odml', 'ODML', 'section'])
    return root, flags


def _xml_random(tier, rnd):
    for i in range(1000 if tier == 'quick' else 27000):
        root, flags = _rand_tree(rnd)
        yield _xcase(_ser(root), 'random-tree', 'random tree over the odML element names', wf=flags['wf'])


# ---- mutations of valid files -----------------------------------------------------------------

def _from_pyet(el):
    n = N(el.tag, el.text if (el.text and el.text.strip()) or len(el) == 0 else None, attrs=list(el.attrib.items()))
    if len(el) == 0 and el.text is None:
        n.text = None
    for c in el:
        n.kids.append(_from_pyet(c))
    return n


def _all_nodes(root):
    """(node, parent, index) of all elements except the root, in document order."""
    out = []

    def rec(n):
        for i, k in enumerate(n.kids):
            if isinstance(k, N):
                out.append((k, n, i))
                rec(k)
    rec(root)
    return out


def _obj_paths(root):
    """name paths of the sections/properties in a model tree + map id(element) -> path."""
    paths, by_node = set(), {}

    def name_of(n):
        for k in n.kids:
            if isinstance(k, N) and k.tag == 'name':
                return k.text
        return None

    def rec(n, prefix):
        for k in n.kids:
            if isinstance(k, N) and k.tag == 'section':
                p = prefix + (('S', name_of(k)),)
                paths.add(p)
                by_node[id(k)] = p
                rec(k, p)
            elif isinstance(k, N) and k.tag == 'property':
                p = prefix + (('P', name_of(k)),)
                paths.add(p)
                by_node[id(k)] = p
    rec(root, ())
    return paths, by_node


def _keep_outside(root, touched):
    """All object paths of `root` except those at or below the object elements that own the nodes in `touched`
    (nodes of the tree); owner odML -> nothing is excluded for that node."""
    paths, by_node = _obj_paths(root)
    if not isinstance(touched, (list, tuple)):
        touched = [touched]
    keep = set(paths)
    for t in touched:
        chain = []

        def find(n, trail, t=t, chain=chain):
            if n is t:
                chain.extend(trail + [n])
                return True
            for k in n.kids:
                if isinstance(k, N) and find(k, trail + [n]):
                    return True
            return False
        find(root, [])
        owner = None
        for n in reversed(chain):
            if n.tag in ('section', 'property') and id(n) in by_node:
                owner = by_node[id(n)]
                break
        if owner is not None:
            keep = set(p for p in keep if p[:len(owner)] != owner)
    return keep


MUT_TEXTS = ['', ' ', 'abc', '%s 5% {0} { \\u12 \U0001F600 \u0130 100%', '-1', '(1, 2)', '2020-13-45', 'é²٣', 'x' * 200, '[a,"b]',
             'not-a-uuid', '(²;٣)']
MUT_RENAMES = ['foo', 'name', 'section', 'property', 'value', 'type', 'id', 'odML', 'NAME']


def _xml_mutations(tier, seed, rnd):
    docs = list(h.gen_docs(tier, seed, max_secs=3, per_shape=1))
    docs = [d for d in docs if len(h.walk(d)[0]) >= 2]
    rnd.shuffle(docs)
    docs = docs[:3 if tier == 'quick' else 12]
    budget_used = 0
    for di, doc in enumerate(docs):
        with _silence():
            text = str(odml.tools.xmlparser.XMLWriter(doc))
        try:
            root0 = _from_pyet(PyET.fromstring(text.encode('utf-8')))
        except PyET.ParseError:
            continue
        all_paths, _ = _obj_paths(root0)
        yield _xcase(_ser(root0), 'valid-file', 'generated valid file %d, unchanged' % di, wf=True, keep=all_paths,
                     witness={'gen_doc': di, 'seed': seed, 'mutation': None})
        n_nodes = len(_all_nodes(root0))
        if tier == 'quick':
            # bounded wall time: at most 80 mutated nodes over all files (documents differ in size per seed)
            n_nodes = min(n_nodes, max(0, 80 - budget_used))
            budget_used += n_nodes
        for idx in range(n_nodes):
            def fresh():
                r = root0.copy()
                return r, _all_nodes(r)[idx]
            r, (node, par, i) = fresh()
            label = '<%s> #%d' % (node.tag, idx)
            wit = {'gen_doc': di, 'seed': seed, 'node': idx, 'tag': node.tag}
            # delete
            keep = _keep_outside(r, node if node.tag in ('section', 'property') else par)
            del par.kids[i]
            yield _xcase(_ser(r), 'mutate-delete', 'delete ' + label, wf=True, keep=keep, witness=dict(wit, mutation='delete'))
            # duplicate
            r, (node, par, i) = fresh()
            keep = _keep_outside(r, node if node.tag in ('section', 'property') else par)
            par.kids.insert(i + 1, node.copy())
            yield _xcase(_ser(r), 'mutate-duplicate', 'duplicate ' + label, wf=True, keep=keep,
                         witness=dict(wit, mutation='duplicate'))
            # swap with next sibling (order only: everything is still there)
            r, (node, par, i) = fresh()
            if i + 1 < len(par.kids):
                keep, _ = _obj_paths(r)
                par.kids[i], par.kids[i + 1] = par.kids[i + 1], par.kids[i]
                yield _xcase(_ser(r), 'mutate-swap', 'swap %s with next sibling' % label, wf=True, keep=keep,
                             witness=dict(wit, mutation='swap'))
            # move into another parent (wrong place)
            r, (node, par, i) = fresh()
            others = [n for n, _p, _i in _all_nodes(r) if n is not node and n is not par]
            if others:
                target = others[(idx * 7 + 3) % len(others)]
                # do not create a cycle
                inside = set(id(n) for n, _p, _i in _all_nodes(node))
                if id(target) not in inside:
                    del par.kids[i]
                    target.kids.append(node)
                    yield _xcase(_ser(r), 'mutate-move', 'move %s into <%s>' % (label, target.tag), wf=True,
                                 witness=dict(wit, mutation='move'))
            # rename
            for new in (MUT_RENAMES[:5] if tier == 'quick' else MUT_RENAMES):
                if new == node.tag:
                    continue
                r, (node, par, i) = fresh()
                # the renamed element becomes (or stops being) a child field of its parent: both are damaged
                keep = _keep_outside(r, [node, par])
                node.tag = new
                yield _xcase(_ser(r), 'mutate-rename', 'rename %s to <%s>' % (label, new), wf=True, keep=keep,
                             problem=(new == 'foo'), witness=dict(wit, mutation='rename', to=new))
            # change text (leaves only)
            r, (node, par, i) = fresh()
            if not node.kids:
                for t in (MUT_TEXTS[:7] if tier == 'quick' else MUT_TEXTS):
                    r, (node, par, i) = fresh()
                    keep = _keep_outside(r, par)
                    node.text = t
                    yield _xcase(_ser(r), 'mutate-text', 'text of %s := %r' % (label, t[:12]), wf=True, keep=keep,
                                 witness=dict(wit, mutation='text', to=t))


# ---- hostile text at every text position x every reader problem that produces a message ---------------------
#
# A reader that meets a problem builds a message, and the message quotes what was read.  Whether that works depends
# on the TEXT that sits in (or next to) the damaged element: text that means something to a formatting layer
# (%-formats, str.format fields, backslash / \u escapes, $-templates, quotes of a repr), text that is very long,
# control characters XML allows, astral characters, letters whose lower-case form has another length.  The space is
#       reader problem  x  text position of the tree the problem was planted in  x  hostile text
# where the positions are ALL text-bearing places of a tree that uses every element of the format once (element
# text, the problem's own text, text between children, CDATA, comment, processing instruction, attribute value) and
# names of unknown elements / attributes / namespaces as far as XML allows the characters there.
# The facts of a case come from the construction alone: the file is well-formed XML (all characters legal, markup
# escaped; expat must agree) with an odML root, so strict mode may raise ParserException only and lenient mode
# nothing at all, and the objects outside the element that owns the problem / the typed text are kept.

HOSTILE = [
    ('percent', '%'), ('percent in a sentence', '80 % correct'), ('percent-s', '%s'), ('percent-d', '%d'),
    ('percent-mapping', '%(x)s'), ('percent doubled', '%%'), ('percent at the end', '100%'), ('percent-star', '%*d'),
    ('percent other conversions', '%r %c %5.2f %i %o'),
    ('braces empty', '{}'), ('braces index', '{0}'), ('braces name', '{x}'), ('brace open', '{'), ('brace close', '}'),
    ('braces attribute', '{0.__class__}'), ('braces conversion', '{0!r:>{1}}'), ('braces doubled', '{{}}'),
    ('braces high index', '{7}'),
    ('backslash', '\\'), ('backslash at the end', 'C:\\dir\\'), ('backslash-n', 'a\\nb'), ('backslash-u', '\\u0041'),
    ('backslash-u too short', '\\u12'), ('backslash-x too short', '\\x4'), ('backslash-N', '\\N{DASH}'),
    ('backslash group', '\\1 \\g<0>'),
    ('dollar', '$x ${y} $$ $'),
    ('quotes', '\'"'), ('triple quotes', '"""\'\'\''), ('text like a repr', "'], 'name': 'x', u'\\"),
    ('tab', 'a\tb'), ('newline', 'a\nb\n.'), ('carriage return', 'a\rb'), ('DEL', 'a\x7fb'), ('C1 next line', 'a\x85b'),
    ('C1 CSI', 'a\x9bb'), ('line separator', 'a\u2028b'), ('right-to-left override', 'a\u202eb'),
    ('zero width', 'a\u200bb\ufeffc'), ('noncharacter', 'a\ufdd0b'),
    ('astral', '\U0001F600'), ('astral tag character', 'a\U000E0041b'), ('astral last', '\U0010FFFD'),
    ('combining', 'a\u0308\u0323'), ('case expanding', '\u0130\u0131\xdf\u017f\u0149'),
    ('long', 'x' * 20000), ('long percent', '%s ' * 3000), ('long braces', '{} ' * 3000), ('long line', 'word ' * 3000),
]
# all kinds at once: any formatting layer that chokes on one of them chokes on this
HOSTILE_ALL = '%s %d %(x)s 5% {} {0} {x} { } \\ \\u0041 \\x4 $x \' " \t \x7f \x85 \u2028 \U0001F600 \u0130 100%'
HOSTILE_QUICK = ('percent', 'brace open', 'backslash-u too short', 'percent-s', 'percent at the end', 'braces index')
HOSTILE_CORE = HOSTILE_QUICK + ('percent-mapping', 'braces name', 'backslash at the end', 'text like a repr', 'long percent')
# control characters XML does not allow but JSON / YAML can carry (escaped); no NUL
HOSTILE_DICT_ONLY = [('C0 SOH', 'a\x01b'), ('C0 ESC', 'a\x1b[31mb'), ('C0 unit separator', 'a\x1fb'), ('form feed', 'a\x0cb')]

# XML names (no '%', braces or backslash possible there) and namespace names (any text possible)
HOSTILE_TAGS = ['f.0', '_s', 'f\xe9', '\u0130', 'a\U00010000', 'x' * 5000, 'f-s', '_0_', '\u017f', '\u212a']
# namespace names: (text, certainly a URI reference by RFC 3986).  "Namespaces in XML" demands a URI reference there,
# so a file with another namespace name is not certainly acceptable: totality clauses only for those
HOSTILE_NS = [('urn:%25s', True), ('http://example.org/a%20b?%7B0%7D#%d0', True), ('URN:UPPER', True),
              ('urn:%s', False), ('urn:%(x)s %d 5%', False), ('urn:{0}', False), ('urn:{', False), ('urn:a}b', False),
              ('C:\\u12\\', False), ('\U0001F600', False), (' ', False)]

FREE_TEXT = {     # (owner tag, element): any text is a valid value there, the owner stays a valid part
    'odML': ('author', 'version', 'repository'),
    'section': ('name', 'type', 'definition', 'reference', 'repository'),
    'property': ('name', 'unit', 'definition', 'dependency', 'dependencyvalue', 'reference', 'value_origin'),
}


def _full_tree():
    """A valid tree that uses every element of the format (but link / include) once; returns the named nodes."""
    p1 = N('property', kids=[N('name', 'p1'), N('value', 'x'), N('type', 'string'), N('unit', 'mV'),
                             N('uncertainty', '0.5'), N('id', UUIDS[3]), N('definition', 'pd'), N('dependency', 'p1b'),
                             N('dependencyvalue', 'w'), N('reference', 'pr'), N('value_origin', 'f.dat'),
                             N('val_cardinality', '(1, 3)')])
    p1b = N('property', kids=[N('name', 'p1b'), N('value', 'w')])
    p2 = N('property', kids=[N('name', 'p2'), N('value', '[1,2]'), N('type', 'int')])
    s2 = N('section', kids=[N('name', 's2'), N('type', 't'), p2])
    s1 = N('section', kids=[N('name', 's1'), N('type', 't'), N('id', UUIDS[2]), N('definition', 'sd'),
                            N('reference', 'sr'), N('repository', 'rep'), N('sec_cardinality', '(0, 4)'),
                            N('prop_cardinality', '(1, 5)'), p1, p1b, s2])
    s3 = N('section', kids=[N('name', 's3'), N('type', 't')])
    root = N('odML', kids=[N('author', 'me'), N('version', '1'), N('date', '2020-01-02'), N('repository', 'rep'),
                           N('id', UUIDS[1]), s1, s3], attrs=[('version', CURRENT)])
    return {'root': root, 's1': s1, 's2': s2, 's3': s3, 'p1': p1, 'p1b': p1b, 'p2': p2}


def _kid(node, tag):
    for k in node.kids:
        if isinstance(k, N) and k.tag == tag:
            return k
    raise KeyError(tag)


def _drop(node, tag):
    node.kids.remove(_kid(node, tag))


def _hostile_problems():
    """label -> fn(t) planting one reader problem into the full tree t; returns (touched nodes or None, warning certain).
    touched: the object elements that own the problem (everything outside them must be kept by a lenient reader);
    None: no claim about what is kept."""
    def sec(name, type_='t'):
        return N('section', kids=[N('name', name), N('type', type_)])

    def setk(node, tag, text):
        _kid(node, tag).text = text

    P = {}
    P['no problem'] = lambda t: ([], False)
    # missing mandatory element
    P['section without <name>'] = lambda t: (_drop(t['s1'], 'name'), ([t['s1']], False))[1]
    P['section without <type>'] = lambda t: (_drop(t['s1'], 'type'), ([t['s1']], False))[1]
    P['section without <name> and <type>'] = lambda t: (_drop(t['s1'], 'name'), _drop(t['s1'], 'type'), ([t['s1']], False))[2]
    P['subsection without <name>'] = lambda t: (_drop(t['s2'], 'name'), ([t['s2']], False))[1]
    P['property without <name>'] = lambda t: (_drop(t['p1'], 'name'), ([t['p1']], False))[1]
    P['property with <name/> only'] = lambda t: (setattr(t['p1b'], 'kids', [N('name')]), ([t['p1b']], False))[1]
    # unknown element
    P['<foo> in odML'] = lambda t: (t['root'].kids.insert(2, N('foo', 'x')), ([], True))[1]
    P['<foo> in section'] = lambda t: (t['s1'].kids.insert(2, N('foo', 'x')), ([t['s1']], True))[1]
    P['<foo> in property'] = lambda t: (t['p1'].kids.insert(2, N('foo', 'x')), ([t['p1']], True))[1]
    P['<foo> with children in section'] = lambda t: (t['s1'].kids.insert(2, N('foo', kids=[N('name', 'x'), N('bar', 'y')])),
                                                     ([t['s1']], True))[1]
    # repeated element
    P['<author> twice in odML'] = lambda t: (t['root'].kids.insert(1, N('author', 'you')), ([], False))[1]
    P['<definition> twice in section'] = lambda t: (t['s1'].kids.insert(4, N('definition', 'again')), ([t['s1']], False))[1]
    P['<name> twice in section'] = lambda t: (t['s1'].kids.insert(1, N('name', 's1bis')), ([t['s1']], False))[1]
    P['<unit> twice in property'] = lambda t: (t['p1'].kids.append(N('unit', 'kg')), ([t['p1']], False))[1]
    P['<value> twice in property'] = lambda t: (t['p1'].kids.append(N('value', 'y')), ([t['p1']], False))[1]
    # unparsable value / type
    P['value no int'] = lambda t: (setk(t['p1'], 'type', 'int'), setk(t['p1'], 'value', 'abc'), ([t['p1']], False))[2]
    P['value list no float'] = lambda t: (setk(t['p1'], 'type', 'float'), setk(t['p1'], 'value', '[1.5,b]'), ([t['p1']], False))[2]
    P['value no date'] = lambda t: (setk(t['p1'], 'type', 'date'), setk(t['p1'], 'value', '2020-13-45'), ([t['p1']], False))[2]
    P['value no 2-tuple'] = lambda t: (setk(t['p1'], 'type', '2-tuple'), setk(t['p1'], 'value', '(1;2;3)'), ([t['p1']], False))[2]
    P['value with unbalanced quote'] = lambda t: (setk(t['p1'], 'value', '[a,"b]'), ([t['p1']], False))[1]
    P['unknown dtype'] = lambda t: (setk(t['p1'], 'type', 'no-such-type'), ([t['p1']], False))[1]
    P['uncertainty no number'] = lambda t: (setk(t['p1'], 'uncertainty', 'abc'), ([t['p1']], False))[1]
    # bad id
    P['document id no uuid'] = lambda t: (setk(t['root'], 'id', 'not-a-uuid'), ([], False))[1]
    P['section id no uuid'] = lambda t: (setk(t['s1'], 'id', 'not-a-uuid'), ([t['s1']], False))[1]
    P['property id no uuid'] = lambda t: (setk(t['p1'], 'id', 'not-a-uuid'), ([t['p1']], False))[1]
    P['same id on section and property'] = lambda t: (setk(t['p1'], 'id', UUIDS[2]), ([t['s1']], False))[1]
    # bad cardinality
    P['sec_cardinality max below min'] = lambda t: (setk(t['s1'], 'sec_cardinality', '(2, 1)'), ([t['s1']], False))[1]
    P['prop_cardinality no numbers'] = lambda t: (setk(t['s1'], 'prop_cardinality', '(a, b)'), ([t['s1']], False))[1]
    P['val_cardinality negative'] = lambda t: (setk(t['p1'], 'val_cardinality', '(-1, 2)'), ([t['p1']], False))[1]
    P['val_cardinality violated'] = lambda t: (setk(t['p1'], 'val_cardinality', '(2, 3)'), ([t['p1']], False))[1]
    # bad date
    P['document date no date'] = lambda t: (setk(t['root'], 'date', 'yesterday'), ([], False))[1]
    # version
    P['other format version'] = lambda t: (setattr(t['root'], 'attrs', [('version', '1.0')]), (None, False))[1]
    P['no format version'] = lambda t: (setattr(t['root'], 'attrs', []), (None, False))[1]
    P['root <odml>'] = lambda t: (setattr(t['root'], 'tag', 'odml'), (None, False))[1]
    # attributes
    P['foo= on odML'] = lambda t: (t['root'].attrs.append(('foo', 'x')), (None, True))[1]
    P['foo= on section'] = lambda t: (t['s1'].attrs.append(('foo', 'x')), ([t['s1']], True))[1]
    P['foo= on property'] = lambda t: (t['p1'].attrs.append(('foo', 'x')), ([t['p1']], True))[1]
    # duplicate sibling names
    P['two top-level sections with one name'] = lambda t: (t['root'].kids.append(sec('s3', 'u')), (None, False))[1]
    P['two subsections with one name'] = lambda t: (t['s1'].kids.append(sec('s2')), ([t['s1']], False))[1]
    P['two properties with one name'] = lambda t: (t['s1'].kids.insert(9, N('property', kids=[N('name', 'p1'), N('value', 'y')])),
                                                   ([t['s1']], False))[1]
    # wrong nesting
    P['property in odML'] = lambda t: (t['root'].kids.append(t['p2'].copy()), (None, False))[1]
    P['section in property'] = lambda t: (t['p1'].kids.append(sec('q')), ([t['p1']], False))[1]
    P['value in section'] = lambda t: (t['s1'].kids.insert(3, N('value', 'x')), ([t['s1']], False))[1]
    P['odML in section'] = lambda t: (t['s1'].kids.append(N('odML', attrs=[('version', CURRENT)], kids=[N('author', 'x')])),
                                      ([t['s1']], False))[1]
    P['name with child element'] = lambda t: (_kid(t['s1'], 'name').kids.append(N('b', 'x')), ([t['s1']], False))[1]
    # dependency (message of the validation pass behind ODMLReader / odml.load)
    P['dependency names nothing'] = lambda t: (setk(t['p1'], 'dependency', 'nowhere'), ([t['p1']], False))[1]
    P['dependency value differs'] = lambda t: (setk(t['p1'], 'dependencyvalue', 'v'), ([t['p1']], False))[1]
    return P


def _leaf_positions(root):
    """[(index in _all_nodes order, label, owner tag or None)] of all elements that carry text (no element children)."""
    out = []
    for idx, (node, par, _i) in enumerate(_all_nodes(root)):
        if any(isinstance(k, N) for k in node.kids) or node.tag in OBJ_TAGS:
            continue
        out.append((idx, '<%s> of <%s>' % (node.tag, par.tag), par.tag))
    return out


def _is_free(node, par):
    return node.tag in FREE_TEXT.get(par.tag, ()) and not node.kids


EXTRA_POSITIONS = ['text between children of odML', 'text between children of section', 'text between children of property',
                   'text after the last child of section', 'CDATA in <value>', 'CDATA in <definition>', 'comment in section',
                   'comment in <value>', 'processing instruction in section', 'processing instruction target data in odML',
                   'value of foo= on section', 'value of foo= on <name>', 'value of xml:lang= on <value>',
                   'text of <foo> in section', 'text of <foo> in <foo> in property', 'value of version= on odML']


def _hostile_build(plabel, pfn, where, tlabel, text, keep_claims=True):
    """One case: problem `plabel` planted, then `text` put at `where`:
       ('all', None) every free-text element at once | ('leaf', index) | ('extra', label).  None when not applicable."""
    try:
        return _hostile_build_(plabel, pfn, where, tlabel, text, keep_claims)
    except KeyError:                          # the problem removed the element this position lives in
        return None


def _hostile_build_(plabel, pfn, where, tlabel, text, keep_claims):
    t = _full_tree()
    touched, certain = pfn(t)
    root = t['root']
    touched = None if touched is None else list(touched)
    kind, arg = where

    def touch(node):
        if touched is not None:
            touched.append(node)

    if kind == 'all':
        n = 0
        for node, par, _i in _all_nodes(root):
            if isinstance(node, N) and _is_free(node, par):
                # names stay distinct (and equal where the problem made them equal); no edge a reader may strip
                node.text = (node.text or '') + text + 'z' if node.tag == 'name' else text
                n += 1
        wlabel = 'every free-text element (%d)' % n
    elif kind == 'leaf':
        nodes = _all_nodes(root)
        if arg >= len(nodes):
            return None
        node, par, _i = nodes[arg]
        if any(isinstance(k, N) for k in node.kids) or node.tag in OBJ_TAGS:
            return None
        free = _is_free(node, par)
        node.kids = []
        node.text = 'n' + text + 'z' if (free and node.tag == 'name') else text
        if not free:
            touch(node)                       # typed text: its owner may be refused as a whole
        wlabel = '<%s> of <%s>%s' % (node.tag, par.tag, '' if free else ' (typed)')
    else:
        s1, p1 = t['s1'], t['p1']
        esc = _esc(text)
        wlabel = arg
        if arg.startswith('text between children of'):
            node = {'odML': root, 'section': s1, 'property': p1}[arg.rsplit(' ', 1)[1]]
            node.kids.insert(1, R(esc))
            if node is root:
                touched = None            # mixed content in the root: no claim about what is kept
            else:
                touch(node)
        elif arg == 'text after the last child of section':
            s1.kids.append(R(esc))
            touch(s1)
        elif arg.startswith('CDATA in'):
            if ']]>' in text:
                return None
            owner = p1 if 'value' in arg else s1
            node = _kid(owner, 'value' if 'value' in arg else 'definition')
            node.text, node.kids = None, [R('<![CDATA[%s]]>' % text)]
            touch(owner)
        elif arg.startswith('comment in'):
            if '--' in text or text.endswith('-'):
                return None
            if arg.endswith('section'):
                s1.kids.insert(2, R('<!--%s-->' % text))
            else:
                _kid(p1, 'value').kids.append(R('<!--%s-->' % text))
                touch(p1)
        elif arg.startswith('processing instruction'):
            if '?>' in text:
                return None
            if arg.endswith('section'):
                s1.kids.insert(2, R('<?p %s?>' % text))
            else:
                root.kids.insert(1, R('<?target-data %s?>' % text))
        elif arg == 'value of foo= on section':
            s1.attrs.append(('foo', text))
            touch(s1)
            certain = True
        elif arg == 'value of foo= on <name>':
            _kid(s1, 'name').attrs.append(('foo', text))
            touch(s1)
        elif arg == 'value of xml:lang= on <value>':
            _kid(p1, 'value').attrs.append(('xml:lang', text))
            touch(p1)
        elif arg == 'text of <foo> in section':
            s1.kids.insert(3, N('foo', text))
            touch(s1)
            certain = True
        elif arg == 'text of <foo> in <foo> in property':
            p1.kids.insert(3, N('foo', kids=[N('foo', text)]))
            touch(p1)
            certain = True
        elif arg == 'value of version= on odML':
            root.attrs = [(k, v) for k, v in root.attrs if k != 'version'] + [('version', text)]
            touched = None                    # another format version: InvalidVersionException is what the contract asks for
        else:
            raise KeyError(arg)
    keep = None
    if keep_claims and touched is not None:
        keep = _keep_outside(root, [n for n in touched if n is not root])
    feat = '%s | %s | %s' % (plabel, wlabel, tlabel)
    return _xcase(_ser(root), 'hostile-text', feat, wf=True, problem=certain, keep=keep,
                  witness={'problem': plabel, 'position': wlabel, 'text': tlabel,
                           'text_value': text if len(text) <= 80 else text[:80] + '...(%d)' % len(text)})


def _hostile_names(tier):
    """Unknown elements / attributes / namespaces whose NAME is unusual, alone and next to a missing mandatory element."""
    def variants():
        for tag in (HOSTILE_TAGS[:6] if tier == 'quick' else HOSTILE_TAGS):
            yield 'element <%s>' % (tag if len(tag) < 20 else tag[:20] + '...'), \
                (lambda ctx, tag=tag: ctx.kids.insert(1, N(tag, 'x'))), True, True
            yield 'attribute %s=' % (tag if len(tag) < 20 else tag[:20] + '...'), \
                (lambda ctx, tag=tag: ctx.attrs.append((tag, 'x'))), True, True
        for ns, uri in (HOSTILE_NS[:5] if tier == 'quick' else HOSTILE_NS):
            # an element of a foreign namespace is no odML element; whether a reader warns about it is not claimed
            wf = True if uri else None
            yield 'prefixed element in namespace %r' % ns, \
                (lambda ctx, ns=ns: ctx.kids.insert(1, N('q:Foo', 'x', attrs=[('xmlns:q', ns)]))), False, wf
            yield 'element in default namespace %r' % ns, \
                (lambda ctx, ns=ns: ctx.kids.insert(1, N('Foo', 'x', attrs=[('xmlns', ns)]))), False, wf
            yield 'prefixed odML element <q:definition> in namespace %r' % ns, \
                (lambda ctx, ns=ns: ctx.kids.insert(1, N('q:definition', 'x', attrs=[('xmlns:q', ns)]))), False, wf
            yield 'prefixed attribute in namespace %r' % ns, \
                (lambda ctx, ns=ns: ctx.attrs.extend([('xmlns:q', ns), ('q:Foo', 'x')])), False, wf
    for vlabel, fn, certain, wf in variants():
        for ctx in ('odML', 'section', 'property'):
            for missing in (False, True):
                if missing and ctx == 'odML':
                    continue
                if tier == 'quick' and missing and ctx == 'property':
                    continue
                t = _full_tree()
                node = {'odML': t['root'], 'section': t['s1'], 'property': t['p1']}[ctx]
                fn(node)
                if missing:
                    _drop(node, 'name')
                keep = _keep_outside(t['root'], [node]) if node is not t['root'] else None
                yield _xcase(_ser(t['root']), 'hostile-name',
                             '%s in <%s>%s' % (vlabel, ctx, ', <name> missing' if missing else ''), wf=wf,
                             problem=certain, keep=keep,
                             witness={'name': vlabel, 'context': ctx, 'name_missing': missing})
    # the root element itself in a namespace / with an unusual name: no odML root, strict clauses only
    for ns, _uri in HOSTILE_NS:
        yield _xcase('<odML xmlns="%s" version="1.1"><author>me</author></odML>' % _esc(ns).replace('"', '&quot;'),
                     'hostile-name', 'root in default namespace %r' % ns, wf=None)
        yield _xcase('<q:odML xmlns:q="%s" version="1.1"><author>me</author></q:odML>' % _esc(ns).replace('"', '&quot;'),
                     'hostile-name', 'prefixed root in namespace %r' % ns, wf=None)
    for tag in HOSTILE_TAGS:
        yield _xcase('<%s version="1.1"><author>me</author></%s>' % (tag, tag), 'hostile-name',
                     'root <%s>' % tag[:20], wf=True)


HOSTILE_QUICK_ENTRIES = (('XMLReader.from_string', False), ('XMLReader.from_string', True),
                         ('ODMLReader(XML).from_string', False), ('odml.load', True))


def _xml_hostile(tier, rnd):
    """Hostile text x position x problem (see above).  Entry points: group (1) and the names go through all 8 in the
    thorough tier; the single-position groups and the whole quick tier through 4 of them (string strict / lenient,
    ODMLReader strict with the validation pass, odml.load = file path, lenient, validation pass) - how the text reaches
    the reader is the subject of the stored-form families, what the reader does with it is the subject here."""
    quick = tier == 'quick'
    problems = _hostile_problems()
    texts = dict(HOSTILE)
    some = HOSTILE_QUICK if quick else HOSTILE_CORE
    common = ('no problem', 'section without <name>', 'property without <name>', '<foo> in section', 'other format version')

    def emit(case, all_entries):
        if case is None:
            return []
        if quick or not all_entries:
            case['entries'] = HOSTILE_QUICK_ENTRIES
        return [case]
    # (1) every problem x every hostile text (quick: the all-in-one text and three kinds; the long ones with the common
    #     problems only) in ALL free-text elements at once
    for plabel, pfn in problems.items():
        for tlabel, text in [('all kinds at once', HOSTILE_ALL)] + [(k, v) for k, v in HOSTILE if not quick or k in some[:3]]:
            if tlabel.startswith('long') and plabel not in common:
                continue
            for c in emit(_hostile_build(plabel, pfn, ('all', None), tlabel, text), True):
                yield c
    # (2) every problem x every single position (leaves of the tree WITH the problem in it, so the problem's own
    #     text is a position too; and the places outside element text) x the all-in-one text (thorough: the common
    #     problems also x the core kinds);  quick tier: only the positions inside the element that owns the problem
    #     (the root's own for problems of the root)
    for plabel, pfn in problems.items():
        t = _full_tree()
        touched, _c = pfn(t)
        own = set(id(n) for n in (touched or [])) or {id(t['root'])}
        nodes = _all_nodes(t['root'])
        positions = []
        for idx, _lab, _own in _leaf_positions(t['root']):
            node, par, _i = nodes[idx]
            if quick and plabel != 'no problem' and not (id(par) in own or id(node) in own):
                continue
            positions.append(('leaf', idx))
        if not quick or plabel in common:
            positions += [('extra', lab) for lab in EXTRA_POSITIONS]
        kinds = [('all kinds at once', HOSTILE_ALL)]
        if not quick and plabel in common:
            kinds += [(k, texts[k]) for k in some]
        for where in positions:
            for tlabel, text in kinds:
                for c in emit(_hostile_build(plabel, pfn, where, tlabel, text), False):
                    yield c
    # (3) thorough: no problem / a missing mandatory element x every position x every text
    for plabel in () if quick else ('no problem', 'property without <name>'):
        pfn = problems[plabel]
        t = _full_tree()
        pfn(t)
        for idx, _lab, _own in _leaf_positions(t['root']):
            for tlabel, text in HOSTILE:
                for c in emit(_hostile_build(plabel, pfn, ('leaf', idx), tlabel, text), False):
                    yield c
    # (4) unusual names
    for case in _hostile_names(tier):
        for c in emit(case, True):
            yield c
    # (5) random rest of the cross product (seed dependent)
    plist = list(problems.items())
    for _ in range(100 if quick else 2500):
        plabel, pfn = rnd.choice(plist)
        tlabel, text = rnd.choice(HOSTILE)
        if rnd.random() < 0.2:
            where = ('extra', rnd.choice(EXTRA_POSITIONS))
        else:
            where = ('leaf', rnd.randrange(48))
        for c in emit(_hostile_build(plabel, pfn, where, tlabel, text), False):
            yield c


def _classify_xml(case):
    """Independent facts about the input: well-formed (generator says so AND expat agrees), odML root, version."""
    case['wf_root_ok'] = False
    case['other_version'] = False
    if case['wf'] is not True:
        return
    try:
        data = case['data'] if case.get('data') is not None else case['text'].encode('utf-8')
        root = PyET.fromstring(data)
    except Exception:                        # noqa  (expat disagrees or text not encodable: no claim)
        return
    if root.tag != 'odML':
        return
    ver = root.attrib.get('version')
    if ver == CURRENT:
        case['wf_root_ok'] = True
    elif ver is not None and ver.strip() not in ('', CURRENT):
        case['other_version'] = True


# ---- stored form of a file: encoding x declaration x byte order mark x line ends x file name ---------------
#
# Everything above reaches the readers as UTF-8 bytes of a Python string.  A file is more than its text: it is a
# byte sequence in SOME encoding, with or without byte order mark, with or without (correct) encoding declaration,
# with some line-end convention, stored under some name and handed over as path string, path object, open binary
# or text handle, other file-like object, bytes or str.  The generators below enumerate that space.
#
# Which stored forms are certainly well-formed XML (so that the lenient clauses apply) is decided here from the XML
# recommendation (4.3.3 and appendix F), never from what lxml does; expat must agree as well (_classify_xml):
#   * UTF-16 with byte order mark, no declaration or a declaration naming UTF-16             -> well-formed
#   * UTF-8 with or without byte order mark, no declaration or a declaration naming UTF-8    -> well-formed
#   * ISO-8859-1 / windows-1252 / US-ASCII bytes whose declaration names that very encoding  -> well-formed
#   * ASCII-only bytes, no declaration or one naming any ASCII-compatible encoding of the list -> well-formed
#   * everything else (wrong declaration, missing declaration on non-UTF bytes, UTF-16 without mark, UTF-32,
#     EBCDIC, multi-byte and less common 8-bit encodings, unknown names)      -> no claim: totality clauses only

_BOM8, _BOM16LE, _BOM16BE = b'\xef\xbb\xbf', b'\xff\xfe', b'\xfe\xff'
_BOM32LE, _BOM32BE = b'\xff\xfe\x00\x00', b'\x00\x00\xfe\xff'

# (label, python codec, byte order mark, canonical encoding name or None when no claim is ever made)
ENC_STORAGE_MAIN = [
    ('utf-8', 'utf-8', b'', 'utf-8'), ('utf-8+bom', 'utf-8', _BOM8, 'utf-8'),
    ('iso-8859-1', 'latin-1', b'', 'iso-8859-1'), ('windows-1252', 'cp1252', b'', 'windows-1252'),
    ('utf-16-le+bom', 'utf-16-le', _BOM16LE, 'utf-16'), ('utf-16-be+bom', 'utf-16-be', _BOM16BE, 'utf-16'),
]
ENC_STORAGE_MORE = [
    ('us-ascii', 'ascii', b'', 'us-ascii'),
    ('utf-16-le', 'utf-16-le', b'', None), ('utf-16-be', 'utf-16-be', b'', None),
    ('utf-32-le+bom', 'utf-32-le', _BOM32LE, None), ('utf-32-be+bom', 'utf-32-be', _BOM32BE, None),
    ('utf-32-le', 'utf-32-le', b'', None), ('iso-8859-15', 'iso8859-15', b'', None), ('koi8-r', 'koi8-r', b'', None),
    ('shift_jis', 'shift_jis', b'', None), ('ebcdic-cp037', 'cp037', b'', None),
]
# declared name -> canonical name (own table of the aliases used here)
ENC_DECLS_MAIN = [(None, None), ('UTF-8', 'utf-8'), ('ISO-8859-1', 'iso-8859-1'), ('windows-1252', 'windows-1252'),
                  ('UTF-16', 'utf-16'), ('US-ASCII', 'us-ascii'), ('bogus-enc', '?')]
ENC_DECLS_MORE = [('utf-8', 'utf-8'), ('utf8', '?'), ('latin1', '?'), ('iso-8859-1', 'iso-8859-1'), ('UTF-16LE', '?'),
                  ('UTF-16BE', '?'), ('UTF-32', '?'), ('ISO-8859-15', '?'), ('KOI8-R', '?'), ('Shift_JIS', '?'),
                  ('ebcdic-cp-us', '?'), ('', '?'), ('UTF-7', '?')]
ASCII_COMPATIBLE = ('utf-8', 'iso-8859-1', 'windows-1252', 'us-ascii')
# what goes into the text: nothing (ASCII only), Latin-1 range, windows-1252 specials (bytes 0x80-0x9f), other BMP, astral
SPICES = [('ascii-only', ''), ('latin-1-range', 'J\xfcrgen M\xfcller \xe9\xdf'), ('cp1252-specials', '€ “q” –'),
          ('bmp', '٣ 日本 Ю'), ('astral', '\U0001F600')]
NEWLINES = [('LF', '\n'), ('CRLF', '\r\n'), ('CR', '\r')]


def _enc_tree(spice, variant):
    """(root, keep paths, problem) of the small file all stored forms are made of; names and texts carry the spice."""
    prop = N('property', kids=[N('name', 'p' + spice), N('value', '[v%s,w]' % spice), N('type', 'string')])
    sub = N('section', kids=[N('name', 'sub'), N('type', 't')])
    sec = N('section', kids=[N('name', 's' + spice), N('type', 't'), N('definition', spice or 'd'), prop, sub])
    root = N('odML', kids=[N('author', 'A' + spice), R('<!-- c %s -->' % spice), sec], attrs=[('version', CURRENT)])
    sp = ('S', 's' + spice)
    keep = {(sp,), (sp, ('P', 'p' + spice)), (sp, ('S', 'sub'))}
    problem = False
    if variant == 'unknown-element':
        root.kids.insert(1, N('foo', 'x' + spice))
        problem = True
    elif variant == 'other-version':
        root.attrs = [('version', '1.0')]
        keep = None
    elif variant == 'big':
        # larger than any read buffer: multi-byte characters end up on chunk borders
        root.kids[0].text = 'A' + (spice or 'a') * (70000 // max(1, len(spice)))
    return root, keep, problem


def _pretty(n, nl, depth=0):
    """Serialisation with line ends and indentation between elements (element content only)."""
    if isinstance(n, R) or not any(isinstance(k, N) for k in n.kids):
        return '  ' * depth + _ser(n)
    attrs = ''.join(' %s="%s"' % (k, _esc(v).replace('"', '&quot;')) for k, v in n.attrs)
    return '  ' * depth + '<%s%s>' % (n.tag, attrs) + nl + ''.join(_pretty(k, nl, depth + 1) + nl for k in n.kids) \
        + '  ' * depth + '</%s>' % n.tag


def _claim_wf(canon, bom, dcanon, ascii_only):
    """True when the stored form is certainly well-formed by the XML recommendation, else None (no claim)."""
    if canon is None or dcanon == '?':
        return None
    if canon == 'utf-16':
        return True if bom and dcanon in (None, 'utf-16') else None
    if dcanon == 'utf-16':
        return None
    if canon == 'utf-8':
        if dcanon in (None, 'utf-8'):
            return True
        return True if ascii_only and not bom else None
    # iso-8859-1, windows-1252, us-ascii bytes
    if dcanon == canon:
        return True
    return True if ascii_only else None


def _bcase(data, text, tcodec, fam, feat, wf, wf_text, problem=False, keep=None, witness=None):
    wit = dict(witness or {})
    wit['bytes'] = repr(data if len(data) <= 300 else data[:300] + b'...')
    return {'data': data, 'text': text, 'tcodec': tcodec, 'fam': fam, 'feat': feat, 'wf': wf, 'wf_text': wf_text,
            'problem': problem, 'keep': keep, 'witness': wit}


def _xml_encoded(tier):
    """A small valid (or slightly damaged) file in every stored form."""
    quick = tier == 'quick'
    storages = ENC_STORAGE_MAIN + ([] if quick else ENC_STORAGE_MORE)
    decls = ENC_DECLS_MAIN + ([] if quick else ENC_DECLS_MORE)
    variants = ['valid', 'unknown-element', 'other-version']
    for label, codec, bom, canon in storages:
        for sname, spice in SPICES:
            if quick and sname == 'bmp':
                continue
            try:
                spice.encode(codec)
            except UnicodeEncodeError:
                continue
            for variant in variants + (['big'] if (sname in ('ascii-only', 'latin-1-range', 'astral')) else []):
                if variant == 'big' and quick and label not in ('utf-8', 'utf-16-le+bom', 'iso-8859-1'):
                    continue
                root, keep, problem = _enc_tree(spice, variant)
                for dname, dcanon in decls:
                    if variant == 'big' and dname not in (None, 'UTF-8', 'ISO-8859-1', 'UTF-16'):
                        continue
                    if quick and variant != 'valid' and dcanon not in (None, canon):
                        continue                # quick tier: damaged variants with a missing or the matching declaration only
                    for nlname, nl in NEWLINES:
                        if nlname != 'LF' and (variant != 'valid' or (quick and (dcanon not in (None, canon) or label not in
                                                                                 ('utf-8', 'utf-16-le+bom', 'iso-8859-1')))):
                            continue
                        decl = '' if dname is None else '<?xml version="1.0" encoding="%s"?>%s' % (dname, nl)
                        text = decl + _pretty(root, nl) + nl
                        data = bom + text.encode(codec)
                        wf = _claim_wf(canon, bool(bom), dcanon, spice == '')
                        # decoded text: its declaration is void; claim only when there is none or it says UTF-8
                        wf_text = True if dcanon in (None, 'utf-8') else None
                        yield _bcase(data, text, 'utf-8-sig' if bom == _BOM8 else codec.replace('-le', '').replace('-be', '')
                                     if bom else codec, 'stored-form',
                                     '%s declared %s, %s, %s, %s' % (label, dname, sname, variant, nlname),
                                     wf, wf_text, problem=problem, keep=keep,
                                     witness={'storage': label, 'declared': dname, 'content': sname, 'variant': variant,
                                              'newline': nlname})


BYTE_ALPHABET = [b'\x00', b'<', b'a', b'\x80', b'\xc3', b'\xa9', b'\xe2', b'\xef', b'\xbb', b'\xbf', b'\xfe', b'\xff',
                 b'\xed', b'\xa0', b'\xf4', b'\x90']
BYTES_CURATED = [
    b'\xef\xbb\xbf', b'\xff\xfe', b'\xfe\xff', b'\xff\xfe\x00\x00', b'\x00\x00\xfe\xff', b'\xef\xbb', b'\xff',
    b'\xef\xbb\xbf\xef\xbb\xbf<odML version="1.1"/>', b'\xef\xbb\xbf<odML version="1.1"/>\xef\xbb\xbf',
    b'<odML version="1.1"/>\xef\xbb\xbf', b' \xef\xbb\xbf<odML version="1.1"/>',
    b'\xff\xfe<odML version="1.1"/>', b'\xef\xbb\xbf' + '<odML version="1.1"/>'.encode('utf-16-le'),
    b'\xff\xfe' + '<odML version="1.1"/>'.encode('utf-16-le')[:-1],                 # odd number of bytes
    b'\xff\xfe' + '<odML version="1.1"><author>'.encode('utf-16-le') + b'\x00\xd8' + '</author></odML>'.encode('utf-16-le'),
    b'\xff\xfe' + '<odML version="1.1"><author>'.encode('utf-16-le') + b'\x00\xdc\x00\xd8' + '</author></odML>'.encode('utf-16-le'),
    b'\xff\xfe' + '<odML version="1.1"/>'.encode('utf-16-be'),                       # mark says LE, bytes are BE
    b'<odML version="1.1"><author>J\xfcrgen</author></odML>',                        # Latin-1 bytes, nothing declared
    b'<?xml version="1.0" encoding="UTF-8"?><odML version="1.1"><author>J\xfcrgen</author></odML>',
    b'<?xml version="1.0" encoding="US-ASCII"?><odML version="1.1"><author>J\xc3\xbcrgen</author></odML>',
    b'<?xml version="1.0" encoding="windows-1252"?><odML version="1.1"><author>\x81\x8d\x8f\x90\x9d</author></odML>',
    b'<odML version="1.1"><author>\xc3</author></odML>', b'<odML version="1.1"><author>x</author></odML>\xc3',
    b'<odML version="1.1"><author>\xc0\xaf</author></odML>',                         # overlong
    b'<odML version="1.1"><author>\xed\xa0\x80\xed\xb0\x80</author></odML>',         # surrogates in UTF-8
    b'<odML version="1.1"><author>\xf4\x90\x80\x80</author></odML>',                 # beyond U+10FFFF
    b'<odML version="1.1"><author>\xef\xbf\xbe</author></odML>',                     # U+FFFE
    b'<odML version="1.1"><J\xfc>x</J\xfc></odML>', b'<odML version="1.1" a\xfc="1"/>', b'<odML version="1.\xb9"/>',
    b'<odML version="1.1"><!-- \xfc --></odML>', b'<odML version="1.1"><?p \xfc?></odML>',
    b'<?xml version="1.0" encoding="\xfc"?><odML version="1.1"/>', b'<?xml version="1.0" enc\xfcding="UTF-8"?><odML version="1.1"/>',
    b'<odML version="1.1"><author>' + b'a' * 70000 + b'\xfc</author></odML>',       # bad byte far behind the first buffer
    b'<odML version="1.1"><author>' + b'a' * 65535 + b'\xc3',                        # file ends inside a character
    b'<?xml version="1.0" encoding="ISO-8859-1"?><odML version="1.1"><author>' + b'\xfc' * 70000 + b'</author></odML>',
    b'\x1f\x8b\x08\x00\x00\x00\x00\x00\x00\x03',                                     # gzip magic
    b'PK\x03\x04', b'\x00' * 64, b'\xff' * 64, b'\x4c\x6f\xa7\x94',                   # zip, NULs, 0xff, EBCDIC '<?xm'
    b'<\x00o\x00d\x00M\x00L\x00', b'\x00<\x00o\x00d\x00M\x00L', b'<\x00\x00\x00o\x00\x00\x00',
]


def _xml_bytes(tier, rnd):
    """Byte sequences that are not (certainly) the encoding of any text: no well-formedness claim, totality only."""
    for data in BYTES_CURATED:
        yield _bcase(data, None, None, 'arbitrary-bytes-curated', repr(data[:40]), None, None)
    maxlen = 2 if tier == 'quick' else 3

    def words(n):
        if n == 0:
            yield b''
            return
        for w in words(n - 1):
            for c in BYTE_ALPHABET:
                yield w + c
    frames = [('bare', b'%s'), ('in text', b'<odML version="1.1"><author>%s</author></odML>'),
              ('in tag', b'<odML version="1.1"><a%s/></odML>'),
              ('in text, Latin-1 declared', b'<?xml version="1.0" encoding="ISO-8859-1"?><odML version="1.1"><author>%s</author></odML>')]
    if tier == 'quick':
        frames = frames[:2]
    for n in range(1, maxlen + 1):
        for w in words(n):
            for fname, frame in frames:
                yield _bcase(frame % w, None, None, 'arbitrary-bytes-short',
                             'all byte strings of length %d over %d bytes, %s' % (n, len(BYTE_ALPHABET), fname), None, None)
    # damaged stored forms
    bases = []
    for label, codec, bom, dname in (('utf-8', 'utf-8', b'', 'UTF-8'), ('iso-8859-1', 'latin-1', b'', 'ISO-8859-1'),
                                     ('windows-1252', 'cp1252', b'', 'windows-1252'),
                                     ('utf-16-le+bom', 'utf-16-le', _BOM16LE, 'UTF-16'), ('utf-16-be+bom', 'utf-16-be', _BOM16BE, None),
                                     ('utf-8+bom', 'utf-8', _BOM8, None)):
        spice = SPICES[1][1] if codec in ('latin-1', 'cp1252') else SPICES[1][1] + SPICES[3][1] + SPICES[4][1]
        root, _keep, _p = _enc_tree(spice, 'valid')
        decl = '' if dname is None else '<?xml version="1.0" encoding="%s"?>\n' % dname
        bases.append((label, bom + (decl + _pretty(root, '\n')).encode(codec)))
    pool = [0x00, 0x80, 0xc3, 0xff, 0xfe, 0x3c, 0x3e, 0x26, 0x0d]
    for i in range(180 if tier == 'quick' else 6000):
        label, data = bases[i % len(bases)]
        b = bytearray(data)
        ops = []
        for _ in range(rnd.choice([1, 1, 2, 3])):
            op = rnd.choice(['set', 'set', 'delete', 'double', 'truncate', 'bom'])
            k = rnd.randrange(len(b)) if b else 0
            if not b:
                break
            if op == 'set':
                b[k] = rnd.choice(pool + [rnd.randrange(256)])
            elif op == 'delete':
                del b[k]
            elif op == 'double':
                b.insert(k, b[k])
            elif op == 'truncate':
                del b[max(1, k):]
            else:
                b[k:k] = rnd.choice([_BOM8, _BOM16LE, _BOM16BE])
            ops.append(op)
        yield _bcase(bytes(b), None, None, 'damaged-stored-form', 'random byte damage of a %s file' % label, None, None,
                     witness={'storage': label, 'ops': ops})


FILE_NAMES = ['plain.xml', 'with space.xml', '\xfcn\xef c\xf6d\xe9.xml', '日本.odml', '\U0001F600.xml', 'a%20b.xml',
              'a%41.xml', 'a%zz.xml', '%', 'a#b.xml', 'a?b=c.xml', 'a&b.xml', '-dash.xml', 'noext', 'misleading.json',
              'misleading.gz', 'a:b.xml', 'http:x.xml', 'file:x.xml', 'a;b.xml', 'a+b.xml', "a'b.xml", 'a"b.xml',
              'a\\b.xml', 'a<b>.xml', 'a\nb.xml', 'a\tb.xml', '~tilde.xml', '$HOME.xml', '*.xml', 'x' * 200 + '.xml',
              '.hidden', 'UPPER.XML', os.path.join('dir%20x', 'in.xml'), os.path.join('dir#y', 'in.xml'),
              os.path.join('d\xefr', 'in.xml')]


def _xml_named(tier):
    """One valid file (two stored forms) under many file names: (case, relative file name)."""
    for label, codec, dname in (('utf-8', 'utf-8', 'UTF-8'), ('iso-8859-1', 'latin-1', 'ISO-8859-1')):
        spice = SPICES[1][1]
        root, keep, _p = _enc_tree(spice, 'valid')
        text = '<?xml version="1.0" encoding="%s"?>\n' % dname + _pretty(root, '\n') + '\n'
        for name in FILE_NAMES:
            yield _bcase(text.encode(codec), text, codec, 'file-name', '%r (%s)' % (name[:30], label), True, None,
                         keep=keep, witness={'file_name': name, 'storage': label}), name


class _Chunked(object):
    """The least a file-like object can be: read(n) only, a few bytes at a time (characters get split)."""

    def __init__(self, data, step=7):
        self.data, self.pos, self.step = data, 0, step

    def read(self, n=-1):
        n = self.step if n is None or n < 0 else min(n, self.step)
        out = self.data[self.pos:self.pos + n]
        self.pos += len(out)
        return out


class _PathLike(object):
    """os.PathLike that is not a pathlib class."""

    def __init__(self, path):
        self.path = path

    def __fspath__(self):
        return self.path


def _byte_case_plan(case, path, named_only=False):
    """[(entry, lenient, kind, make_argument, call)] for one stored file; kind 'bytes' | 'text' selects the facts."""
    data, text = case['data'], case['text']
    plan = []

    def xr(lenient):
        return XMLReader(ignore_errors=lenient, show_warnings=False)

    for lenient in (False, True):
        plan.append(('XMLReader.from_file(path str)', lenient, 'bytes', lambda: path, 'from_file'))
        plan.append(('XMLReader.from_file(pathlib.Path)', lenient, 'bytes', lambda: pathlib.Path(path), 'from_file'))
        plan.append(('XMLReader.from_file(open binary handle)', lenient, 'bytes', lambda: open(path, 'rb'), 'from_file'))
        plan.append(('XMLReader.from_file(relative path str)', lenient, 'bytes', lambda: os.path.relpath(path), 'from_file'))
        if named_only:
            continue
        plan.append(('XMLReader.from_file(BytesIO)', lenient, 'bytes', lambda: io.BytesIO(data), 'from_file'))
        plan.append(('XMLReader.from_file(read()-only object, 7-byte chunks)', lenient, 'bytes',
                     lambda: _Chunked(data, 7 if len(data) < 5000 else 4099), 'from_file'))
        plan.append(('XMLReader.from_string(bytes)', lenient, 'bytes', lambda: data, 'from_string'))
        if text is not None:
            plan.append(('XMLReader.from_file(open text handle)', lenient, 'text',
                         lambda: open(path, 'r', encoding=case['tcodec'], newline=''), 'from_file'))
            plan.append(('XMLReader.from_file(StringIO)', lenient, 'text', lambda: io.StringIO(text), 'from_file'))
            plan.append(('XMLReader.from_string(str)', lenient, 'text', lambda: text, 'from_string'))
    plan.append(('ODMLReader(XML).from_file(path str)', True, 'bytes', lambda: path, 'odmlreader_file'))
    plan.append(('odml.load(path str)', True, 'bytes', lambda: path, 'load'))
    plan.append(('odml.load(pathlib.Path)', True, 'bytes', lambda: pathlib.Path(path), 'load'))
    if not named_only:
        plan.append(('odml.load(os.PathLike)', True, 'bytes', lambda: _PathLike(path), 'load'))
        plan.append(('ODMLReader(XML).from_string(bytes)', False, 'bytes', lambda: data, 'odmlreader_string'))
        if text is not None:
            plan.append(('ODMLReader(XML).from_string(str)', False, 'text', lambda: text, 'odmlreader_string'))
    for entry, lenient, kind, make, how in plan:
        reader = None
        if how == 'from_file':
            reader = xr(lenient)
            fn = reader.from_file
        elif how == 'from_string':
            reader = xr(lenient)
            fn = reader.from_string
        elif how == 'odmlreader_file':
            fn = ODMLReader('XML', show_warnings=True).from_file
        elif how == 'odmlreader_string':
            fn = ODMLReader('XML', show_warnings=True).from_string
        else:
            fn = lambda arg: odml.load(arg, 'xml', True)            # noqa: E731
        yield entry, lenient, kind, make, fn, reader


def _run_byte_case(col, chk, case, path, named_only=False):
    """All entry points on one stored file; facts are classified separately for the byte form and the decoded text."""
    facts = {}
    fb = dict(case)
    _classify_xml(fb)
    facts['bytes'] = fb
    if case['text'] is not None:
        ft = dict(case, wf=case['wf_text'], data=None)
        _classify_xml(ft)
        facts['text'] = ft
    with open(path, 'wb') as fh:
        fh.write(case['data'])
    crc = zlib.crc32(case['data'])
    for entry, lenient, kind, make, fn, reader in _byte_case_plan(case, path, named_only):
        arg = make()
        try:
            out = _run(fn, arg)
        finally:
            if hasattr(arg, 'close'):
                arg.close()
        col.case(cls_key=(case['fam'], case['feat'], crc, entry, lenient),
                 sample='%s: %s | %s %s' % (case['fam'], case['feat'], entry, 'lenient' if lenient else 'strict'))
        chk.check(facts[kind], entry, lenient, out, reader.warnings if reader is not None else None)


XML_ENTRIES = [('XMLReader.from_string', False), ('XMLReader.from_string', True),
               ('XMLReader.from_file(file-like)', False), ('XMLReader.from_file(file-like)', True),
               ('XMLReader.from_file(path)', False), ('XMLReader.from_file(path)', True),
               ('ODMLReader(XML).from_string', False), ('odml.load', True)]


def run_xml(tier, seed):
    col = h.Collector(
        'C16.xml',
        rule='inputs: curated + all strings up to length 2 (quick) / 3 (thorough) over 20 characters + random token '
             'strings; single-feature variations of a small valid tree (every odML/unknown/cased tag as extra child of '
             'odML/section/property with pooled texts incl. dates, ids, cardinalities with non-ASCII digits, dtype x value '
             'matrix, missing elements, wrong nesting, attributes, namespaces, duplicates, PI/comment/CDATA/entities, '
             'prolog/epilog, root variants); random trees; delete/duplicate/swap/move/rename/retext of every node of '
             'generated valid files; each x 8 entry points (strict/lenient x from_string/from_file file-like/path, '
             'ODMLReader.from_string, odml.load); stored forms of a small file: encoding x byte order mark x declared '
             'encoding (missing/matching/wrong/unknown) x content range x line ends x valid/unknown element/other '
             'version/larger than a buffer, byte strings that are no text (curated, all short ones in 2-4 frames, random '
             'damage of stored files), 36 file names; each x up to 26 entry points (path str, relative, pathlib.Path, '
             'os.PathLike, binary handle, text handle, BytesIO, StringIO, chunked read()-only object, bytes, str; '
             'XMLReader strict/lenient, ODMLReader, odml.load); hostile text: ~50 message-producing reader problems x '
             'every text position of a tree using every element (leaf text, own text of the problem, mixed content, '
             'CDATA, comment, PI, attribute values, version) x ~50 texts (%-formats, format fields, braces, backslash '
             'escapes, $, quotes, control / astral / case-expanding characters, very long) - all free-text positions at '
             'once and one position at a time, unusual element / attribute / namespace names, random rest of the cross '
             'product, x 4 or 8 entry points; class = (family, feature, content checksum, entry, mode)',
        exhaustive=False)
    rnd = random.Random('c16-xml-%s' % seed)
    _fresh_work()
    path = os.path.join(WORK, 'input.xml')
    chk = _Checker(col, 'C16.xml')
    seen = set()
    try:
        with _silence():
            gens = [_xml_systematic(tier), _xml_arbitrary(tier, rnd), _xml_random(tier, rnd), _xml_mutations(tier, seed, rnd),
                    _xml_hostile(tier, random.Random('c16-xml-hostile-%s' % seed))]
            for gen in gens:
                for case in gen:
                    text = case['text']
                    if text in seen:
                        continue
                    seen.add(text)
                    _classify_xml(case)
                    try:
                        data = text.encode('utf-8')
                    except UnicodeEncodeError:
                        data = None
                    if data is not None:
                        with open(path, 'wb') as fh:
                            fh.write(data)
                    for entry, lenient in XML_ENTRIES:
                        if data is None and entry not in ('XMLReader.from_string', 'ODMLReader(XML).from_string'):
                            continue
                        if case.get('entries') is not None and (entry, lenient) not in case['entries']:
                            continue
                        reader = None
                        if entry == 'XMLReader.from_string':
                            reader = XMLReader(ignore_errors=lenient, show_warnings=False)
                            out = _run(reader.from_string, text)
                        elif entry == 'XMLReader.from_file(file-like)':
                            reader = XMLReader(ignore_errors=lenient, show_warnings=False)
                            out = _run(reader.from_file, io.BytesIO(data))
                        elif entry == 'XMLReader.from_file(path)':
                            reader = XMLReader(ignore_errors=lenient, show_warnings=False)
                            out = _run(reader.from_file, path)
                        elif entry == 'ODMLReader(XML).from_string':
                            out = _run(ODMLReader('XML', show_warnings=True).from_string, text)
                        else:
                            out = _run(odml.load, path, 'xml', True)
                        col.case(cls_key=(case['fam'], case['feat'], zlib.crc32(text.encode('utf-8', 'replace')),
                                          entry, lenient),
                                 sample='%s: %s | %s %s' % (case['fam'], case['feat'], entry,
                                                            'lenient' if lenient else 'strict'))
                        chk.check(case, entry, lenient, out, reader.warnings if reader is not None else None)
            # stored forms: encodings, declarations, byte order marks, line ends, arbitrary bytes, file names
            rnd_b = random.Random('c16-xml-bytes-%s' % seed)
            seen_b = set()
            for gen in (_xml_encoded(tier), _xml_bytes(tier, rnd_b)):
                for case in gen:
                    if case['data'] in seen_b:
                        continue
                    seen_b.add(case['data'])
                    _run_byte_case(col, chk, case, path)
            for case, name in _xml_named(tier):
                named = os.path.join(WORK, 'names', name)
                try:
                    os.makedirs(os.path.dirname(named), exist_ok=True)
                    with open(named, 'wb'):
                        pass
                except (OSError, ValueError):
                    continue                    # the file system does not take this name
                _run_byte_case(col, chk, case, named, named_only=True)
    finally:
        _cleanup()
    return _result(col, chk)


# =============================================================================================
# dictionaries (JSON / YAML)
# =============================================================================================

WRONG = [None, '', 'abc', 0, 1, -1, 1.5, True, False, [], {}, ['a'], [1, 2], [None], [[]], [{}], {'a': 1},
         {'name': 'x'}, [[1, 2]], 'é²٣', 10 ** 20, float('nan'), [{'name': 'n1'}], [{'name': 'n1', 'type': 't'}],
         ['a', {'name': 'n1', 'type': 't'}], [{'name': 'n1', 'type': 't'}, None],
         # tuples (DictReader takes Python data, not only what a JSON / YAML parser delivers): a tuple that becomes the
         # sole argument of a %-format is spread over the format's fields
         (1, 1), ()]
D_DATE = ['2020-01-02', '2020-13-45', 'yesterday', '2020-01-02 10:11:12', 20200102, '٢٠٢٠-٠١-٠٢']
D_DATE_PY = [dt.date(2020, 1, 2), dt.datetime(2020, 1, 2, 3, 4, 5), dt.time(1, 2, 3)]
D_ID = [UUIDS[0], UUIDS[0].upper(), 'not-a-uuid', '1' * 32, 5, [UUIDS[0]]]
D_CARD = [[1, 2], [None, 2], [1, None], [2, 1], [1, 1], [-1, 2], ['1', '2'], ['None', 2], [1, 2, 3], [1], 'abc',
          '(1, 2)', 5, [1.5, 2], [True, 2], [None, None], [0, 0], [[1], 2], ['²', 3], [1, '٣'], {'min': 1, 'max': 2},
          [10 ** 30, None], [1, float('inf')]]
D_DTYPE = DTYPE_TEXT + [5, ['int'], None]
D_VALUE = [['x'], 'x', 5, [1, 2], [1, 'b'], [], [[1]], [{}], [None], [None, 1], {'a': 1}, '[1,2]', '(1;2)',
           ['(1;2)'], ['(1;2;3)'], [True], ['maybe'], ['2020-13-01'], [1.5], ['²'], [float('nan')], [10 ** 30],
           ['a', None], [['a', 'b']], '[(1;2),(3;4)]', ['25:00:00'], [dt.date(2020, 1, 2)]]
D_UNC = [0.5, 'abc', '²', float('nan'), -1, [1], '0.5']

D_DOC_KEYS = ['author', 'version', 'date', 'repository', 'id', 'sections']
D_SEC_KEYS = ['name', 'type', 'id', 'definition', 'reference', 'link', 'include', 'repository', 'sec_cardinality',
              'prop_cardinality', 'sections', 'properties']
D_PROP_KEYS = ['name', 'value', 'type', 'unit', 'uncertainty', 'id', 'definition', 'dependency', 'dependencyvalue',
               'reference', 'value_origin', 'val_cardinality']
D_ALIAS = {'Document': ['section', 'oid', 'foo', 'Author', 'properties'],
           'Section': ['section', 'property', 'oid', 'foo', 'Name', 'value'],
           'Property': ['values', 'dtype', 'oid', 'dependency_value', 'foo', 'Name', 'sections']}


def _d_pool(key):
    k = key.lower()
    if k == 'date':
        return D_DATE + D_DATE_PY
    if k in ('id', 'oid'):
        return D_ID
    if k.endswith('cardinality'):
        return D_CARD
    if k in ('value', 'values'):
        return D_VALUE
    if k == 'uncertainty':
        return D_UNC
    if k in ('type', 'dtype'):
        return D_DTYPE
    return []


def _d_base():
    return {'odml-version': CURRENT,
            'Document': {'author': 'me', 'version': '1', 'date': '2020-01-02', 'id': UUIDS[1], 'sections': [
                {'name': 's1', 'type': 't', 'id': UUIDS[2], 'definition': 'd',
                 'properties': [{'name': 'p1', 'value': ['x'], 'type': 'string', 'id': UUIDS[3]}],
                 'sections': [{'name': 's2', 'type': 't',
                               'properties': [{'name': 'p2', 'value': [1, 2], 'type': 'int'}]}]},
                {'name': 's3', 'type': 't'}]}}


D_BASE_PATHS = {(('S', 's1'),), (('S', 's1'), ('P', 'p1')), (('S', 's1'), ('S', 's2')),
                (('S', 's1'), ('S', 's2'), ('P', 'p2')), (('S', 's3'),)}

# slot name -> (getter of the dict that holds the key, level, paths that lie inside it)
D_SLOTS = {
    'Document': (lambda d: d['Document'], 'Document', set()),
    'Section s1': (lambda d: d['Document']['sections'][0], 'Section',
                   {p for p in D_BASE_PATHS if p[:1] == (('S', 's1'),)}),
    'Section s1/s2': (lambda d: d['Document']['sections'][0]['sections'][0], 'Section',
                      {p for p in D_BASE_PATHS if p[:2] == (('S', 's1'), ('S', 's2'))}),
    'Property s1:p1': (lambda d: d['Document']['sections'][0]['properties'][0], 'Property',
                       {(('S', 's1'), ('P', 'p1'))}),
    'Property s1/s2:p2': (lambda d: d['Document']['sections'][0]['sections'][0]['properties'][0], 'Property',
                          {(('S', 's1'), ('S', 's2'), ('P', 'p2'))}),
}


def _has_py_objects(x):
    if isinstance(x, dict):
        return any(_has_py_objects(v) for v in x.values())
    if isinstance(x, list):
        return any(_has_py_objects(v) for v in x)
    return isinstance(x, (dt.date, dt.time))


def _canon(x):
    """Type-exact, key-order-free form of parsed JSON / YAML data (1, 1.0 and True stay different, nan equals nan)."""
    if isinstance(x, dict):
        return ('dict', tuple(sorted((repr(k), _canon(v)) for k, v in x.items())))
    if isinstance(x, (list, tuple)):
        return (type(x).__name__, tuple(_canon(v) for v in x))
    return (type(x).__name__, repr(x))


def _dcase(data, fam, feat, problem=False, keep=None):
    return {'data': data, 'fam': fam, 'feat': feat, 'problem': problem, 'keep': keep,
            'witness': {'data': repr(data)[:700]}}


def _short(v):
    r = repr(v)
    return r if len(r) <= 24 else r[:24] + '..'


def _dict_systematic(tier='thorough'):
    keys_of = {'Document': D_DOC_KEYS, 'Section': D_SEC_KEYS, 'Property': D_PROP_KEYS}
    yield _dcase(_d_base(), 'valid', 'base dictionary unchanged', keep=D_BASE_PATHS)
    for slot, (get, level, inside) in D_SLOTS.items():
        outside = D_BASE_PATHS - inside
        for key in keys_of[level] + D_ALIAS[level]:
            pool = WRONG + _d_pool(key)
            if tier == 'quick' and key in D_ALIAS[level]:
                pool = WRONG[:10] + _d_pool(key)[:6]
            for v in pool:
                d = _d_base()
                get(d)[key] = copy.deepcopy(v)
                container_key = key in ('sections', 'section', 'properties', 'property')
                keep = outside
                if level == 'Document' and container_key:
                    keep = set()
                yield _dcase(d, 'set-key', '%s[%r] := %s' % (slot, key, _short(v)),
                             problem=(key == 'foo'), keep=keep)
        for key in list(get(_d_base()).keys()):
            d = _d_base()
            del get(d)[key]
            keep = outside
            if level == 'Document' and key == 'sections':
                keep = set()
            yield _dcase(d, 'missing-key', '%s without %r' % (slot, key), keep=keep)
        d = _d_base()
        get(d).clear()
        yield _dcase(d, 'missing-key', '%s emptied' % slot, keep=outside if level != 'Document' else set())
    # the containers themselves replaced by something else
    for v in WRONG:
        d = _d_base()
        d['Document']['sections'][0] = copy.deepcopy(v)
        yield _dcase(d, 'wrong-item', 'sections[0] := %s' % _short(v), keep={(('S', 's3'),)})
        d = _d_base()
        d['Document']['sections'][0]['properties'][0] = copy.deepcopy(v)
        yield _dcase(d, 'wrong-item', 's1.properties[0] := %s' % _short(v), keep={(('S', 's3'),)})
        d = _d_base()
        d['Document']['sections'][0]['sections'][0] = copy.deepcopy(v)
        yield _dcase(d, 'wrong-item', 's1.sections[0] := %s' % _short(v), keep={(('S', 's3'),)})
    # top level
    for v in [CURRENT, '1.0', '2', 'abc', '', ' 1.1', 1.1, 1, None, [CURRENT], {'v': CURRENT}, True, (CURRENT,), (1, 1), (),
              ('1', '0'), HOSTILE_ALL, '%s', '%(x)s', '{0}']:
        d = _d_base()
        d['odml-version'] = v
        yield _dcase(d, 'top-level', 'odml-version := %r' % (v,))
    d = _d_base()
    del d['odml-version']
    yield _dcase(d, 'top-level', 'odml-version missing')
    d = _d_base()
    del d['Document']
    yield _dcase(d, 'top-level', 'Document missing')
    for v in WRONG:
        d = _d_base()
        d['Document'] = copy.deepcopy(v)
        yield _dcase(d, 'top-level', 'Document := %s' % _short(v))
    for k in ['foo', 'document', 'sections', 'odml_version']:
        d = _d_base()
        d[k] = 'x'
        yield _dcase(d, 'top-level', 'extra top-level key %r' % k, keep=D_BASE_PATHS)
    yield _dcase({}, 'top-level', 'empty dictionary')
    # duplicates
    S = {'name': 's1', 'type': 't'}
    P = {'name': 'p1', 'value': ['y']}
    dups = {
        'two top-level sections with one name': lambda d: d['Document']['sections'].append(dict(S)),
        'two top-level sections with one name, other type': lambda d: d['Document']['sections'].append(dict(S, type='u')),
        'two subsections with one name': lambda d: d['Document']['sections'][0]['sections'].append({'name': 's2', 'type': 't'}),
        'two properties with one name': lambda d: d['Document']['sections'][0]['properties'].append(dict(P)),
        'property and subsection with one name': lambda d: d['Document']['sections'][0]['properties'].append({'name': 's2'}),
        'two unnamed top-level sections': lambda d: d['Document']['sections'].extend([{'type': 't'}, {'type': 't'}]),
        'two top-level sections named None': lambda d: d['Document']['sections'].extend([{'name': None, 'type': 't'}, {'name': None, 'type': 't'}]),
        'two top-level sections with one id as name': lambda d: d['Document']['sections'].extend([{'id': UUIDS[0], 'type': 't'}, {'name': UUIDS[0], 'type': 't'}]),
        'same id on two sections': lambda d: d['Document']['sections'][1].update(id=UUIDS[2]),
        'same id on section and document': lambda d: d['Document']['sections'][1].update(id=UUIDS[1]),
        'same id on two properties': lambda d: d['Document']['sections'][0]['sections'][0]['properties'][0].update(id=UUIDS[3]),
        'whole section listed twice (same object)': lambda d: d['Document']['sections'].append(d['Document']['sections'][0]),
        'whole property listed twice (same object)': lambda d: d['Document']['sections'][0]['properties'].append(d['Document']['sections'][0]['properties'][0]),
        'three top-level sections with one name': lambda d: d['Document']['sections'].extend([dict(S), dict(S)]),
    }
    for label, fn in dups.items():
        d = _d_base()
        fn(d)
        yield _dcase(d, 'duplicate', label)
    # dependencies (resolved by the validation pass that ODMLReader runs after parsing)
    deps = {
        'dependency names a subsection': ('s2', 'v', None),
        'dependency names the property itself': ('p1', 'x', None),
        'dependency names a sibling property without values': ('p1b', 'v', {'name': 'p1b'}),
        'dependency names a sibling property, value matches': ('p1b', 'w', {'name': 'p1b', 'value': ['w']}),
        'dependency names a sibling property, value differs': ('p1b', 'v', {'name': 'p1b', 'value': [1, 2], 'type': 'int'}),
        'dependency names nothing': ('nowhere', 'v', None),
    }
    for label, (dep, depval, sibling) in deps.items():
        d = _d_base()
        sec = d['Document']['sections'][0]
        sec['properties'][0].update(dependency=dep, dependencyvalue=depval)
        if sibling is not None:
            sec['properties'].append(sibling)
        yield _dcase(d, 'dependency', label, keep=D_BASE_PATHS)


# ---- hostile text at every text position (and as key) x every reader problem: the dictionary side -------------

def _d_full():
    """A valid dictionary that uses every key of the format (but link / include) once."""
    return {'odml-version': CURRENT,
            'Document': {'author': 'me', 'version': '1', 'date': '2020-01-02', 'repository': 'rep', 'id': UUIDS[1], 'sections': [
                {'name': 's1', 'type': 't', 'id': UUIDS[2], 'definition': 'sd', 'reference': 'sr', 'repository': 'rep',
                 'sec_cardinality': [0, 4], 'prop_cardinality': [1, 5],
                 'properties': [{'name': 'p1', 'value': ['x'], 'type': 'string', 'unit': 'mV', 'uncertainty': 0.5,
                                 'id': UUIDS[3], 'definition': 'pd', 'dependency': 'p1b', 'dependencyvalue': 'w',
                                 'reference': 'pr', 'value_origin': 'f.dat', 'val_cardinality': [1, 3]},
                                {'name': 'p1b', 'value': ['w']}],
                 'sections': [{'name': 's2', 'type': 't',
                               'properties': [{'name': 'p2', 'value': [1, 2], 'type': 'int'}]}]},
                {'name': 's3', 'type': 't'}]}}


def _d_slots(d):
    doc = d['Document']
    s1 = doc['sections'][0]
    return {'Document': doc, 's1': s1, 's2': s1['sections'][0], 's3': doc['sections'][1],
            'p1': s1['properties'][0], 'p1b': s1['properties'][1], 'p2': s1['sections'][0]['properties'][0]}


D_SLOT_LEVEL = {'Document': 'odML', 's1': 'section', 's2': 'section', 's3': 'section', 'p1': 'property',
                'p1b': 'property', 'p2': 'property'}


def _d_paths(d, touched):
    """Name paths of the Sections / Properties a dictionary describes, without everything at or below the dicts in
    `touched` (by identity); only where the description is in order (lists of dicts with text names)."""
    out = set()
    bad = set(id(x) for x in touched)

    def rec(node, prefix):
        secs = node.get('sections')
        if isinstance(secs, list):
            for s in secs:
                if not isinstance(s, dict) or id(s) in bad or not isinstance(s.get('name'), str):
                    continue
                p = prefix + (('S', s['name']),)
                out.add(p)
                props = s.get('properties')
                if isinstance(props, list):
                    for q in props:
                        if isinstance(q, dict) and id(q) not in bad and isinstance(q.get('name'), str):
                            out.add(p + (('P', q['name']),))
                rec(s, p)
    if isinstance(d.get('Document'), dict) and id(d['Document']) not in bad:
        rec(d['Document'], ())
    return out


def _d_hostile_problems():
    """label -> fn(d, slots) planting one problem; returns (touched dicts or None for 'no claim what is kept', certain)."""
    P = {}
    P['no problem'] = lambda d, t: ([], False)
    P['Section without name'] = lambda d, t: (t['s1'].pop('name'), ([t['s1']], False))[1]
    P['Section without type'] = lambda d, t: (t['s1'].pop('type'), ([t['s1']], False))[1]
    P['sub Section without name'] = lambda d, t: (t['s2'].pop('name'), ([t['s2']], False))[1]
    P['Property without name'] = lambda d, t: (t['p1'].pop('name'), ([t['p1']], False))[1]
    P["key 'foo' in Document"] = lambda d, t: (t['Document'].update(foo='x'), ([], True))[1]
    P["key 'foo' in Section"] = lambda d, t: (t['s1'].update(foo='x'), ([t['s1']], True))[1]
    P["key 'foo' in Property"] = lambda d, t: (t['p1'].update(foo='x'), ([t['p1']], True))[1]
    P['sections is text'] = lambda d, t: (t['s1'].update(sections='abc'), ([t['s1']], False))[1]
    P['properties is a number'] = lambda d, t: (t['s1'].update(properties=5), ([t['s1']], False))[1]
    P['a Section is a number'] = lambda d, t: (t['s1']['sections'].append(5), ([t['s1']], False))[1]
    P['a Property is text'] = lambda d, t: (t['s1']['properties'].append('abc'), ([t['s1']], False))[1]
    P['Section name is a number'] = lambda d, t: (t['s2'].update(name=5), ([t['s2']], False))[1]
    P['value no int'] = lambda d, t: (t['p1'].update(type='int', value=['abc']), ([t['p1']], False))[1]
    P['value no 2-tuple'] = lambda d, t: (t['p1'].update(type='2-tuple', value=['(1;2;3)']), ([t['p1']], False))[1]
    P['unknown dtype'] = lambda d, t: (t['p1'].update(type='no-such-type'), ([t['p1']], False))[1]
    P['Document id no uuid'] = lambda d, t: (t['Document'].update(id='not-a-uuid'), ([], False))[1]
    P['Section id no uuid'] = lambda d, t: (t['s1'].update(id='not-a-uuid'), ([t['s1']], False))[1]
    P['Property id a number'] = lambda d, t: (t['p1'].update(id=5), ([t['p1']], False))[1]
    P['sec_cardinality max below min'] = lambda d, t: (t['s1'].update(sec_cardinality=[2, 1]), ([t['s1']], False))[1]
    P['val_cardinality text'] = lambda d, t: (t['p1'].update(val_cardinality='(a, b)'), ([t['p1']], False))[1]
    P['Document date no date'] = lambda d, t: (t['Document'].update(date='yesterday'), ([], False))[1]
    P['other format version'] = lambda d, t: (d.update({'odml-version': '1.0'}), (None, False))[1]
    P['no format version'] = lambda d, t: (d.pop('odml-version'), (None, False))[1]
    P['two top-level Sections with one name'] = lambda d, t: (t['Document']['sections'].append({'name': 's3', 'type': 'u'}),
                                                              (None, False))[1]
    P['two sub Sections with one name'] = lambda d, t: (t['s1']['sections'].append({'name': 's2', 'type': 't'}),
                                                        ([t['s1']], False))[1]
    P['two Properties with one name'] = lambda d, t: (t['s1']['properties'].append({'name': 'p1', 'value': ['y']}),
                                                      ([t['s1']], False))[1]
    P['dependency names nothing'] = lambda d, t: (t['p1'].update(dependency='nowhere'), ([t['p1']], False))[1]
    return P


D_EXTRA_POSITIONS = ['unknown key in Document', 'unknown key in Section', 'unknown key in Property', 'top-level key',
                     "text of key 'foo' in Section", 'item of the value list', 'second item of the value list',
                     'odml-version']


def _d_hostile_build(plabel, pfn, where, tlabel, text):
    """One dictionary case; `where`: ('all', None) | ('key', (slot, key)) | ('extra', label).  None when not applicable."""
    d = _d_full()
    t = _d_slots(d)
    touched, certain = pfn(d, t)
    touched = None if touched is None else list(touched)
    kind, arg = where

    def touch(x):
        if touched is not None:
            touched.append(x)

    if kind == 'all':
        n = 0
        for slot, node in t.items():
            for key in FREE_TEXT[D_SLOT_LEVEL[slot]]:
                if isinstance(node.get(key), str):
                    node[key] = node[key] + text + 'z' if key == 'name' else text
                    n += 1
        wlabel = 'every free-text key (%d)' % n
    elif kind == 'key':
        slot, key = arg
        node = t[slot]
        if key not in node or isinstance(node[key], (list, dict)) and key not in ('sec_cardinality', 'prop_cardinality', 'val_cardinality'):
            return None
        free = key in FREE_TEXT[D_SLOT_LEVEL[slot]] and isinstance(node[key], str)
        node[key] = 'n' + text + 'z' if (free and key == 'name') else text
        if not free and slot != 'Document':
            touch(node)
        wlabel = '%s[%r]%s' % (slot, key, '' if free else ' (typed)')
    else:
        wlabel = arg
        if arg.startswith('unknown key in'):
            slot = {'Document': 'Document', 'Section': 's1', 'Property': 'p1'}[arg.rsplit(' ', 1)[1]]
            if text in t[slot]:
                return None
            t[slot][text] = 'x'
            certain = True
            if slot != 'Document':
                touch(t[slot])
        elif arg == 'top-level key':
            if text in d:
                return None
            d[text] = 'x'
        elif arg == "text of key 'foo' in Section":
            t['s1']['foo'] = text
            touch(t['s1'])
            certain = True
        elif arg == 'item of the value list':
            if not isinstance(t['p1'].get('value'), list):
                return None
            t['p1']['value'] = [text]
            touch(t['p1'])
        elif arg == 'second item of the value list':
            t['p1']['value'] = ['x', text]
            touch(t['p1'])
        elif arg == 'odml-version':
            d['odml-version'] = text
            touched = None
        else:
            raise KeyError(arg)
    keep = None if touched is None else _d_paths(d, touched)
    case = _dcase(d, 'hostile-text', '%s | %s | %s' % (plabel, wlabel, tlabel), problem=certain, keep=keep)
    case['witness'] = {'problem': plabel, 'position': wlabel, 'text': tlabel,
                       'text_value': text if len(text) <= 80 else text[:80] + '...(%d)' % len(text)}
    return case


def _dict_hostile(tier, rnd):
    quick = tier == 'quick'
    problems = _d_hostile_problems()
    all_texts = HOSTILE + HOSTILE_DICT_ONLY
    texts = dict(all_texts)
    some = HOSTILE_QUICK if quick else HOSTILE_CORE
    combined = HOSTILE_ALL + ' \x01 \x1b'
    keys = []
    proto = _d_slots(_d_full())
    for slot, node in proto.items():
        for key, v in node.items():
            if key not in ('sections', 'properties'):
                keys.append((slot, key))
    common = ('no problem', 'Section without name', 'Property without name', "key 'foo' in Section", 'other format version')

    def out(case):
        return [case] if case is not None else []
    # (1) every problem x hostile text in all free-text keys at once (the long ones with the common problems only)
    for plabel, pfn in problems.items():
        for tlabel, text in [('all kinds at once', combined)] + [(k, v) for k, v in all_texts if not quick or k in some[:2]]:
            if tlabel.startswith('long') and plabel not in common:
                continue
            for c in out(_d_hostile_build(plabel, pfn, ('all', None), tlabel, text)):
                yield c
    # (2) every problem x every single key (quick: the keys of the dictionary that owns the problem) and the places
    #     that are no values of known keys x the all-in-one text (thorough: two common problems also x the core kinds)
    for plabel, pfn in problems.items():
        d = _d_full()
        t = _d_slots(d)
        touched, _c = pfn(d, t)
        own = [s for s, node in t.items() if any(node is x for x in (touched or []))] or ['Document']
        positions = [('key', (slot, key)) for slot, key in keys if not quick or plabel == 'no problem' or slot in own]
        if not quick or plabel in common:
            positions += [('extra', lab) for lab in D_EXTRA_POSITIONS]
        kinds = [('all kinds at once', combined)]
        if not quick and plabel in common[1:3]:
            kinds += [(k, texts[k]) for k in some]
        for where in positions:
            for tlabel, text in kinds:
                for c in out(_d_hostile_build(plabel, pfn, where, tlabel, text)):
                    yield c
    # (3) thorough: no problem x every key x every text
    for plabel in () if quick else ('no problem',):
        for where in [('key', k) for k in keys] + [('extra', lab) for lab in D_EXTRA_POSITIONS]:
            for tlabel, text in all_texts:
                for c in out(_d_hostile_build(plabel, problems[plabel], where, tlabel, text)):
                    yield c
    # (4) random rest of the cross product (seed dependent)
    plist = list(problems.items())
    for _ in range(40 if quick else 500):
        plabel, pfn = rnd.choice(plist)
        tlabel, text = rnd.choice(all_texts)
        where = ('extra', rnd.choice(D_EXTRA_POSITIONS)) if rnd.random() < 0.25 else ('key', rnd.choice(keys))
        for c in out(_d_hostile_build(plabel, pfn, where, tlabel, text)):
            yield c


# ---- keys that are no text, at every mapping level ------------------------------------------------------------
#
# The KEYS of the mappings of an odML dictionary need not be text.  YAML 1.1 reads the bare words on / off / yes / no /
# true / false as booleans, bare numbers as int / float, ~ / null / an empty key as None, bare dates as date objects,
# !!binary as bytes; a Python dictionary handed to DictReader can carry any hashable key.  Such a key is an unknown
# element of the mapping that holds it - nothing else.  From the statement: strict -> a Document or ParserException;
# lenient (input has a Document mapping and the current version) -> no exception, the unknown key of a Document /
# Section / Property mapping is recorded as a warning, every object outside the mapping that holds the key is kept.
# Levels: top level, Document, Section, sub Section, Property, Property of the sub Section, a mapping in place of the
# value list, a mapping as item of the value list.  The key is mixed with the valid text keys (put last / first) or
# stands alone; several keys of types that cannot be ordered against each other; duplicate keys, merge keys,
# anchors / aliases as keys, tagged keys, complex keys through YAML text.

NONTEXT_KEYS = [
    ('int 1', 1), ('int 0', 0), ('int -7', -7), ('int 10**20', 10 ** 20), ('float 1.5', 1.5), ('float nan', float('nan')),
    ('float inf', float('inf')), ('bool True', True), ('bool False', False), ('None', None), ('tuple ()', ()),
    ('tuple (1, 1)', (1, 1)), ("tuple ('name',)", ('name',)), ("tuple ('a', 'b')", ('a', 'b')),
    ("bytes b'name'", b'name'), ("bytes b'foo'", b'foo'), ('bytes not UTF-8', b'\xff\xfe'),
    ('date', dt.date(2020, 1, 2)), ('datetime', dt.datetime(2020, 1, 2, 3, 4, 5)), ('time', dt.time(1, 2, 3)),
    ('frozenset', frozenset([1])), ('complex', 1j), ('Ellipsis', Ellipsis)]
NONTEXT_QUICK = ('int 1', 'float 1.5', 'bool True', 'None', 'tuple (1, 1)', "bytes b'name'", 'date')
# several keys at once: types without an order between them (or with themselves), and an ordinary same-type pair
NONTEXT_GROUPS = [
    ('None + int', [None, 1]), ('bool + None', [True, None]), ('tuple + float', [(1, 1), 1.5]), ('bytes + int', [b'foo', 2]),
    ('date + datetime', [dt.date(2020, 1, 2), dt.datetime(2020, 1, 2, 3, 4, 5)]), ('nan + int', [float('nan'), 1]),
    ('two ints', [1, 2]), ('two bools', [True, False]), ('complex + complex', [1j, 2j]),
    ('frozenset + frozenset', [frozenset([1]), frozenset([2])]), ('tuple of text + tuple of int', [('a',), (1,)]),
    ('one of every kind', [1, 1.5, None, (1, 1), b'foo', dt.date(2020, 1, 2), dt.time(1, 2, 3), frozenset([1]), 1j])]
NONTEXT_VALUES = [('text', 'x'), ('list', ['x']), ('mapping', {'name': 'n', 'type': 't'}), ('None', None), ('int', 5),
                  ('list of mappings', [{'name': 'n', 'type': 't'}])]
D_LEVELS = ['top level'] + list(D_SLOTS) + ['mapping as value of p1', 'mapping as value item of p1']


def _put_keys(node, pairs, place):
    if place == 'only':
        node.clear()
    if place == 'first':
        old = dict(node)
        node.clear()
    for k, v in pairs:
        node[k] = copy.deepcopy(v)
    if place == 'first':
        for k, v in old.items():
            node.setdefault(k, v)


def _key_level(d, level, pairs, place):
    """Plants the (key, value) pairs at one level of the base dictionary d.  Returns (problem, keep)."""
    p1_path = (('S', 's1'), ('P', 'p1'))
    if level == 'top level':
        _put_keys(d, pairs, place)
        return False, D_BASE_PATHS
    if level.startswith('mapping as value'):
        holder = {'a': 'y'}
        _put_keys(holder, pairs, place)
        D_SLOTS['Property s1:p1'][0](d)['value'] = holder if level == 'mapping as value of p1' else [holder]
        return False, D_BASE_PATHS - {p1_path}
    get, kind, inside = D_SLOTS[level]
    _put_keys(get(d), pairs, place)
    keep = D_BASE_PATHS - inside
    if kind == 'Document' and place == 'only':
        keep = set()
    return True, keep


def _dict_keys_py(tier):
    """Python dictionaries with non-text keys for DictReader (and, where YAML can say it, the YAML entry points)."""
    quick = tier == 'quick'
    for level in D_LEVELS:
        main = level in ('Section s1', 'Property s1:p1')
        for klabel, key in NONTEXT_KEYS:
            if quick and not main and klabel not in NONTEXT_QUICK:
                continue
            for place in ('last', 'first', 'only'):
                if place == 'only' and level == 'top level':
                    continue                    # without 'Document' and the version it is no odML dictionary any more
                if quick and place != 'last' and not (main and klabel in NONTEXT_QUICK):
                    continue
                for vlabel, val in NONTEXT_VALUES:
                    if vlabel != 'text' and (place != 'last' or klabel not in NONTEXT_QUICK or (quick and not main)):
                        continue
                    d = _d_base()
                    problem, keep = _key_level(d, level, [(key, val)], place)
                    c = _dcase(d, 'nontext-key', '%s | key %s, %s | value %s' % (level, klabel, place, vlabel),
                               problem=problem, keep=keep)
                    c['yaml'] = not quick or place == 'last'
                    yield c
        for glabel, keys in NONTEXT_GROUPS:
            for place in ('last', 'first', 'only'):
                if place == 'only' and level == 'top level' or (quick and (place != 'last' or not main)):
                    continue
                d = _d_base()
                problem, keep = _key_level(d, level, [(k, 'x') for k in keys], place)
                c = _dcase(d, 'nontext-key', '%s | keys %s, %s' % (level, glabel, place), problem=problem, keep=keep)
                c['yaml'] = not quick
                yield c
    # a non-text key in every mapping at once
    d = _d_base()
    for level in D_LEVELS[:-1]:
        _key_level(d, level, [(True, 'x'), (None, 'y'), (1.5, 'z')], 'last')
    yield _dcase(d, 'nontext-key', 'every level at once | keys True, None, 1.5, last', problem=True, keep=set())


# YAML spellings of one key (source text): what they denote is found by the generator's own YAML loader
YAML_KEY_SPELLINGS = [
    ('boolean', ['on', 'On', 'ON', 'off', 'Off', 'OFF', 'yes', 'Yes', 'YES', 'no', 'No', 'NO', 'y', 'Y', 'n', 'N', 'true',
                 'True', 'TRUE', 'false', 'False', 'FALSE']),
    ('integer', ['1', '0', '-7', '+3', '-0', '017', '0o17', '0x1F', '0b101', '1_000', '190:20:30', '100000000000000000000']),
    ('float', ['1.5', '-.5', '1.', '1e3', '1.0e+3', '.inf', '-.INF', '+.Inf', '.nan', '.NaN', '190:20:30.15', '1_0.5']),
    ('null', ['~', 'null', 'Null', 'NULL', '? ']),          # '? ' = the explicit empty key
    ('timestamp', ['2020-01-02', '2020-01-02 03:04:05', '2020-01-02T03:04:05Z', '2020-01-02t03:04:05.5+02:00', '2020-1-2',
                   '2001-12-14 21:59:43.10 -5']),
    ('tagged', ['!!int "3"', '!!int 0x10', '!!bool "yes"', '!!bool on', '!!null ""', '!!null x', '!!float "1.5"', '!!float 1',
                '!!binary "bmFtZQ=="', '!!binary Zm9v', '!!binary "//4="', '!!timestamp "2020-01-02"', '!!timestamp 2020-01-02',
                '!!str 1', '!!str on', '!!str ~', '!!str 2020-01-02', '! on', '!!int "1_0"']),
    ('quoted (text after all)', ['"on"', "'yes'", '"1"', "'~'", '"2020-01-02"', '"<<"', '"1.5"', '""']),
    ('complex', ['? on', '? 1', '? ~', '? !!int "3"', '? 2020-01-02', '? "on"', '? [1, 2]', '? {a: b}', '? - 1',
                 '? !!python/tuple [1, 2]', '? !!set {a}', '? |\n  block']),
]
YAML_KEY_QUICK = ('on', 'n', '1', '0x1F', '1.5', '.nan', '~', '? ', '2020-01-02', '!!binary "bmFtZQ=="', '!!str on', '"on"', '? on')
# several entries at once: (label, [(key source, value source)])
YAML_KEY_GROUPS = [
    ('same bool key twice', [('on', 'a'), ('on', 'b')]),
    ('two spellings of one bool key', [('on', 'a'), ('true', 'b')]),
    ('keys equal across types', [('1', 'a'), ('1.0', 'b'), ('true', 'c')]),
    ('two spellings of the null key', [('~', 'a'), ('null', 'b')]),
    ('null key and empty key', [('? ', 'a'), ('~', 'b')]),
    ('text key repeated beside a bool key', [('name', 'dup'), ('on', 'x')]),
    ('value key repeated beside an int key', [('value', '[y]'), ('1', 'x')]),
    ('one key of every kind', [('on', 'x'), ('off', 'y'), ('~', 'z'), ('1', 'w'), ('1.5', 'v'), ('2020-01-02', 'u'),
                               ('2020-01-02 03:04:05', 't'), ('!!binary Zm9v', 's')]),
    ('bool key with list value', [('on', '[x]')]),
    ('int key with mapping value', [('1', '{name: n, type: t}')]),
    ('null key with null value', [('~', '')]),
    ('bool key with list of mappings', [('yes', '[{name: q, type: t}]')]),
    ('bool key with mapping with bool keys', [('on', '{off: {~: [1, {2: 3}]}}')]),
    ('merge of a mapping with a bool key', [('<<', '{on: x}')]),
    ('merge of a mapping with a text key', [('<<', '{foo: x}')]),
    ('merge of a mapping with name and a bool key', [('<<', '{name: other, on: x}')]),
    ('merge of a list of mappings', [('<<', '[{on: x}, {2: y, ~: z}]')]),
    ('merge of an empty list', [('<<', '[]')]),
    ('nested merge', [('<<', '{<<: {off: x}}')]),
    ('merge of an aliased mapping', [('foo', '&m {on: x, 2: y}'), ('<<', '*m')]),
    ('merge of a list with aliases', [('foo', '&m {on: x}'), ('bar', '&n {~: y}'), ('<<', '[*m, *n]')]),
    ('merge key twice', [('<<', '{on: x}'), ('<<', '{off: y}')]),
    ('merge of no mapping', [('<<', '5')]),
    ('merge of a list of no mappings', [('<<', '[5]')]),
    ('merge beside a bool key', [('on', 'x'), ('<<', '{1: y}')]),
    ('anchored bool key and its alias as key', [('&k on', 'x'), ('*k ', 'y')]),
    ('anchored text key and its alias as key', [('&k foo', 'x'), ('*k ', 'y')]),
    ('anchored bool key, alias as its value', [('&k on', '*k')]),
    ('anchored null key', [('&k ~', 'x'), ('foo', '*k')]),
    ('anchored int key, alias as item of a list', [('&k 1', 'x'), ('foo', '[*k, *k]')]),
]
YAML_GROUPS_QUICK = ('same bool key twice', 'keys equal across types', 'one key of every kind', 'merge of a mapping with a bool key',
                     'merge of an aliased mapping', 'anchored bool key and its alias as key')


def _y_base():
    """The base dictionary as a tree of YAML source: ['map', [(key source, node)]] | ['seq', [node]] | scalar source."""
    p1 = ['map', [('name', 'p1'), ('value', '[x]'), ('type', 'string'), ('id', UUIDS[3])]]
    p2 = ['map', [('name', 'p2'), ('value', '[1, 2]'), ('type', 'int')]]
    s2 = ['map', [('name', 's2'), ('type', 't'), ('properties', ['seq', [p2]])]]
    s1 = ['map', [('name', 's1'), ('type', 't'), ('id', UUIDS[2]), ('definition', 'd'), ('properties', ['seq', [p1]]),
                  ('sections', ['seq', [s2]])]]
    s3 = ['map', [('name', 's3'), ('type', 't')]]
    doc = ['map', [('author', 'me'), ('version', "'1'"), ('date', "'2020-01-02'"), ('id', UUIDS[1]),
                   ('sections', ['seq', [s1, s3]])]]
    top = ['map', [('odml-version', "'%s'" % CURRENT), ('Document', doc)]]
    return top, {'top level': top, 'Document': doc, 'Section s1': s1, 'Section s1/s2': s2, 'Property s1:p1': p1,
                 'Property s1/s2:p2': p2}


def _y_lines(node, ind=0):
    pad = ' ' * ind
    out = []
    if node[0] == 'map':
        for key, val in node[1]:
            if key.startswith('? '):            # complex key: on its own line(s), the value follows ': '
                out.extend(pad + ln for ln in key.split('\n'))
                head = pad + ':'
            else:
                head = pad + key + ':'
            if isinstance(val, str):
                out.append(head + (' ' + val if val else ''))
            else:
                out.append(head)
                out.extend(_y_lines(val, ind + 2))
    else:
        for val in node[1]:
            if isinstance(val, str):
                out.append(pad + '- ' + val)
            else:
                out.append(pad + '-')
                out.extend(_y_lines(val, ind + 2))
    return out


_Y_SKIPPED = {'n': 0}


def _ycase(level, pairs, place, label):
    """One YAML text with the (key source, value source) pairs at `level`; None when the generator's own loader does not
    read the text as a mapping with a 'Document' mapping (then the facts of the case are not established)."""
    top, nodes = _y_base()
    if level.startswith('mapping as value'):
        holder = ['map', [('a', 'y')]]
        p1 = nodes['Property s1:p1']
        p1[1] = [(k, v) if k != 'value' else (k, holder if level == 'mapping as value of p1' else ['seq', [holder]])
                 for k, v in p1[1]]
        node = holder
    else:
        node = nodes[level]
    if place == 'last':
        node[1] = node[1] + list(pairs)
    elif place == 'first':
        node[1] = list(pairs) + node[1]
    else:
        node[1] = list(pairs)
    text = '\n'.join(_y_lines(top)) + '\n'
    try:
        data = yaml.load(text, Loader=_YLOADER)
        ok = isinstance(data, dict) and isinstance(data.get('Document'), dict)
        if ok and _YLOADER is not yaml.SafeLoader:      # libyaml and the Python loader have to read the same from it
            ok = _canon(yaml.load(text, Loader=yaml.SafeLoader)) == _canon(data)
    except Exception:                            # noqa  (ValueError for a date that does not exist, ...)
        ok = False
    if not ok:
        _Y_SKIPPED['n'] += 1
        _Y_SKIPPED.setdefault('labels', set()).add(label)
        return None
    # facts of the case from the loaded data: which mapping holds the keys, what lies outside it
    problem, keep = False, None
    try:
        if level == 'top level':
            touched = []
        elif level.startswith('mapping as value'):
            touched = [D_SLOTS['Property s1:p1'][0](data)]
        else:
            holder = D_SLOTS[level][0](data)
            touched = [] if level == 'Document' else [holder]
            problem = isinstance(holder, dict) and any(not isinstance(k, str) for k in holder)
        if all(isinstance(x, dict) for x in touched):
            keep = _d_paths(data, touched)
    except (KeyError, IndexError, TypeError):
        keep = None
    c = _dcase(data, 'nontext-key-yaml', '%s | %s, %s' % (level, label, place), problem=problem, keep=keep)
    c['ytext'] = text
    c['yaml'] = False                          # no second text dumped from the data
    c['witness'] = {'yaml': text, 'loads as': repr(data)[:500]}
    return c


def _dict_keys_yaml(tier):
    quick = tier == 'quick'
    _Y_SKIPPED['n'] = 0
    for level in D_LEVELS:
        main = level in ('Section s1', 'Property s1:p1')
        for kind, spellings in YAML_KEY_SPELLINGS:
            for sp in spellings:
                if quick and not main and sp not in YAML_KEY_QUICK:
                    continue
                for place in ('last', 'first', 'only'):
                    if place == 'only' and level == 'top level':
                        continue
                    if (quick or not main) and place != 'last' and sp not in YAML_KEY_QUICK:
                        continue
                    if quick and place != 'last' and not main:
                        continue
                    c = _ycase(level, [(sp, 'x')], place, '%s key %s' % (kind, sp.replace('\n', '\\n') or '(empty)'))
                    if c is not None:
                        yield c
        for glabel, pairs in YAML_KEY_GROUPS:
            if quick and not (main or glabel in YAML_GROUPS_QUICK):
                continue
            for place in ('last', 'first'):
                if quick and place != 'last':
                    continue
                c = _ycase(level, pairs, place, glabel)
                if c is not None:
                    yield c


def _rand_dict(rnd):
    def scalar(key):
        pool = WRONG + _d_pool(key) * 3 + ['v', 'w', 't', 'a', 'b'] + RAND_HOSTILE[:3]
        return copy.deepcopy(rnd.choice(pool))

    def prop():
        d = {}
        if rnd.random() < 0.9:
            d['name'] = rnd.choice(['p', 'q', 'p', 'r', '', None, 5])
        if rnd.random() < 0.6:
            d['type'] = rnd.choice(DTYPE_TEXT)
        if rnd.random() < 0.7:
            d['value'] = copy.deepcopy(rnd.choice(D_VALUE))
        for _ in range(rnd.choice([0, 0, 1, 2])):
            k = rnd.choice(D_PROP_KEYS + D_ALIAS['Property'])
            d[k] = scalar(k)
        return d

    def sec(depth):
        d = {}
        if rnd.random() < 0.9:
            d['name'] = rnd.choice(['a', 'b', 'a', 'c', '', None])
        if rnd.random() < 0.9:
            d['type'] = rnd.choice(['t', 'u', '', None, 'n.s.'])
        if rnd.random() < 0.6:
            d['properties'] = [prop() if rnd.random() < 0.93 else scalar('x') for _ in range(rnd.choice([0, 1, 2, 3]))] \
                if rnd.random() < 0.93 else scalar('x')
        if depth < 3 and rnd.random() < 0.5:
            d['sections'] = [sec(depth + 1) if rnd.random() < 0.93 else scalar('x') for _ in range(rnd.choice([0, 1, 2]))] \
                if rnd.random() < 0.93 else scalar('x')
        for _ in range(rnd.choice([0, 0, 1, 2])):
            k = rnd.choice(D_SEC_KEYS[:10] + D_ALIAS['Section'])
            d[k] = scalar(k)
        return d

    doc = {}
    for k in D_DOC_KEYS[:5]:
        if rnd.random() < 0.4:
            doc[k] = scalar(k) if rnd.random() < 0.5 else rnd.choice(['me', '1', '2020-01-02', UUIDS[0]])
    if rnd.random() < 0.9:
        doc['sections'] = [sec(0) if rnd.random() < 0.95 else scalar('x') for _ in range(rnd.choice([0, 1, 2, 3]))]
    if rnd.random() < 0.1:
        k = rnd.choice(D_ALIAS['Document'])
        doc[k] = scalar(k)
    top = {'Document': doc, 'odml-version': CURRENT}
    r = rnd.random()
    if r < 0.03:
        top['odml-version'] = rnd.choice(['1.0', '2', 1.1])
    elif r < 0.05:
        del top['odml-version']
    return top


def _classify_dict(case):
    d = case['data']
    case['wf_root_ok'] = False
    case['other_version'] = False
    if not isinstance(d, dict) or 'Document' not in d or not isinstance(d['Document'], dict):
        return
    ver = d.get('odml-version')
    if ver == CURRENT and isinstance(ver, str):
        case['wf_root_ok'] = True
    elif isinstance(ver, str) and ver.strip() not in ('', CURRENT):
        case['other_version'] = True


# ---- stored form of JSON / YAML files ---------------------------------------------------------------------
#
# Which stored forms a reader certainly has to take (all clauses apply) - from the format definitions, not from
# what the json / yaml modules do:
#   JSON (RFC 8259, 8.1): UTF-8 without byte order mark.  A parser MAY ignore a mark, earlier RFCs allowed UTF-16/32:
#                         for those forms only termination is judged.
#   YAML (1.1, 5.2; 1.2, 5.2): UTF-8 and UTF-16, with byte order mark (for UTF-8 also without).
#   Latin-1 / windows-1252 bytes with raw non-ASCII characters are neither: only termination is judged.
D_STORAGE = [  # (label, codec, byte order mark, YAML must be accepted, JSON must be accepted)
    ('utf-8', 'utf-8', b'', True, True), ('utf-8+bom', 'utf-8', _BOM8, True, False),
    ('utf-16-le+bom', 'utf-16-le', _BOM16LE, True, False), ('utf-16-be+bom', 'utf-16-be', _BOM16BE, True, False),
    ('utf-16-le', 'utf-16-le', b'', False, False), ('utf-32-le+bom', 'utf-32-le', _BOM32LE, False, False),
    ('iso-8859-1', 'latin-1', b'', False, False), ('windows-1252', 'cp1252', b'', False, False),
]


def _d_enc(spice, variant):
    d = {'odml-version': CURRENT,
         'Document': {'author': 'A' + spice, 'version': '1', 'sections': [
             {'name': 's' + spice, 'type': 't', 'definition': spice or 'd',
              'properties': [{'name': 'p' + spice, 'value': ['v' + spice, 'w'], 'type': 'string'}],
              'sections': [{'name': 'sub', 'type': 't'}]}]}}
    sp = ('S', 's' + spice)
    keep = {(sp,), (sp, ('P', 'p' + spice)), (sp, ('S', 'sub'))}
    if variant == 'other-version':
        d['odml-version'] = '1.0'
        keep = None
    elif variant == 'big':
        d['Document']['author'] = 'A' + (spice or 'a') * (70000 // max(1, len(spice)))
    return d, keep


def _dict_texts(fmt, d):
    """(flavour, text, has line structure) - the generator's own serialisations of d."""
    if fmt == 'JSON':
        yield 'escaped', json.dumps(d), False
        yield 'raw', json.dumps(d, ensure_ascii=False), False
        yield 'raw-indented', json.dumps(d, ensure_ascii=False, indent=2) + '\n', True
    else:
        yield 'escaped', yaml.dump(d, Dumper=_YDUMPER, sort_keys=False), True
        yield 'raw', yaml.dump(d, Dumper=_YDUMPER, allow_unicode=True, sort_keys=False), True
        yield 'raw-flow', yaml.dump(d, Dumper=_YDUMPER, allow_unicode=True, default_flow_style=True, sort_keys=True), False


def _dict_encoded(tier):
    """{fmt, data, text, first (first stored form of this text), case} for every stored form of small valid files."""
    quick = tier == 'quick'
    for fmt in ('JSON', 'YAML'):
        for sname, spice in SPICES:
            if quick and sname == 'bmp':
                continue
            for variant in ['valid', 'other-version'] + (['big'] if sname in ('ascii-only', 'latin-1-range', 'astral') else []):
                if variant == 'big' and quick and sname != 'latin-1-range':
                    continue
                d, keep = _d_enc(spice, variant)
                for flavour, text0, lines in _dict_texts(fmt, d):
                    for nlname, nl in NEWLINES:
                        if nlname != 'LF' and (not lines or variant != 'valid' or (quick and flavour != 'raw')):
                            continue
                        text = text0.replace('\n', nl)
                        # the text must denote d (own parsers), otherwise the facts of the case do not apply to it
                        try:
                            back = json.loads(text) if fmt == 'JSON' else yaml.load(text, Loader=_YLOADER)
                        except Exception:                # noqa
                            continue
                        if _canon(back) != _canon(d):
                            continue
                        first = True
                        for label, codec, bom, yaml_ok, json_ok in D_STORAGE:
                            if variant == 'big' and label not in ('utf-8', 'utf-16-le+bom'):
                                continue
                            if quick and label in ('utf-16-le', 'utf-32-le+bom', 'windows-1252'):
                                continue
                            try:
                                data = bom + text.encode(codec)
                            except UnicodeEncodeError:
                                continue
                            case = _dcase(d, 'stored-form', '%s %s in %s, %s, %s, %s' % (fmt, flavour, label, sname, variant, nlname),
                                          keep=keep)
                            case['witness'] = {'format': fmt, 'storage': label, 'flavour': flavour, 'content': sname,
                                               'variant': variant, 'newline': nlname,
                                               'bytes': repr(data if len(data) <= 300 else data[:300] + b'...')}
                            if not (yaml_ok if fmt == 'YAML' else json_ok):
                                case['judge'] = 'no-hang-only'
                            yield {'fmt': fmt, 'data': data, 'text': text, 'first': first, 'case': case, 'name': None}
                            first = False
    # file names
    for fmt in ('JSON', 'YAML'):
        d, keep = _d_enc(SPICES[1][1], 'valid')
        text = json.dumps(d, ensure_ascii=False) if fmt == 'JSON' else yaml.dump(d, Dumper=_YDUMPER, allow_unicode=True)
        for name in FILE_NAMES:
            case = _dcase(d, 'file-name', '%s file named %r' % (fmt, name[:30]), keep=keep)
            case['witness'] = {'format': fmt, 'file_name': name}
            yield {'fmt': fmt, 'data': text.encode('utf-8'), 'text': text, 'first': False, 'case': case, 'name': name}


def _run_dict_file(col, chk, item, path):
    fmt, case = item['fmt'], item['case']
    _classify_dict(case)
    with open(path, 'wb') as fh:
        fh.write(item['data'])
    file_lenient = fmt == 'YAML'            # the YAML file entry point is lenient, the JSON one strict
    plan = [('ODMLReader(%s).from_file(path str)' % fmt, file_lenient, lambda: ODMLReader(fmt).from_file(path)),
            ('ODMLReader(%s).from_file(pathlib.Path)' % fmt, file_lenient, lambda: ODMLReader(fmt).from_file(pathlib.Path(path))),
            ('odml.load(path str, %s)' % fmt.lower(), file_lenient, lambda: odml.load(path, fmt.lower(), True)),
            ('odml.load(pathlib.Path, %s)' % fmt, file_lenient, lambda: odml.load(pathlib.Path(path), fmt, True))]
    if item['name'] is not None:
        plan.append(('ODMLReader(%s).from_file(relative path str)' % fmt, file_lenient,
                     lambda: ODMLReader(fmt).from_file(os.path.relpath(path))))
    crc = zlib.crc32(item['data'])
    for entry, lenient, thunk in plan:
        out = _run(thunk)
        col.case(cls_key=(case['fam'], case['feat'], crc, entry, lenient),
                 sample='%s: %s | %s %s' % (case['fam'], case['feat'], entry, 'lenient' if lenient else 'strict'))
        chk.check(case, entry, lenient, out, None)
    if item['first']:
        # the decoded text through the string entry point: always inside the quantifier
        tcase = dict(case)
        tcase.pop('judge', None)
        entry = 'ODMLReader(%s).from_string(str)' % fmt
        out = _run(ODMLReader(fmt).from_string, item['text'])
        col.case(cls_key=(case['fam'], case['feat'], crc, entry, False),
                 sample='%s: %s | %s strict' % (case['fam'], case['feat'], entry))
        chk.check(tcase, entry, False, out, None)


def run_dict(tier, seed):
    col = h.Collector(
        'C16.dict',
        rule='inputs: a valid base dictionary with every key of Document / 2 Sections / 2 Properties (and alias, '
             'unknown, cased keys) set to each of 26 wrong-typed values and key-specific dates, ids, cardinalities, '
             'dtypes, values; each key removed; list items replaced by wrong types; top-level variations; duplicate '
             'names/ids; random dictionaries; each x DictReader.to_odml strict/lenient, ODMLReader JSON/YAML '
             'from_string/from_file (YAML from_file is lenient; quick tier: YAML on every 8th set-key and 2nd random case); stored '
             'forms of small valid JSON/YAML files: 8 encodings/marks x escaped/raw/indented or flow x content range x '
             'line ends x valid/other version/large, 36 file names, through from_file and odml.load with path str and '
             'pathlib.Path, decoded text through from_string; hostile text: ~30 reader problems x every key of a '
             'dictionary using every key (and unknown keys named by the text, value items, odml-version) x ~55 texts '
             '(as for XML + C0 controls); tuples among the wrong-typed values; non-text keys: 8 mapping levels x 23 '
             'Python key objects (and 12 groups of keys without mutual order) x last/first/alone x 6 value shapes, and '
             'hand-written YAML texts: 8 levels x ~95 key spellings of YAML 1.1 (bool, int, float, null, timestamp, tagged, '
             'quoted, explicit) + 30 duplicate / merge / anchor-alias groups x last/first/alone (texts the generator\'s '
             'libyaml and Python loaders do not both read as the same odML dictionary are skipped); '
             'class = (family, feature, content checksum, entry)',
        exhaustive=False)
    rnd = random.Random('c16-dict-%s' % seed)
    _fresh_work()
    jpath = os.path.join(WORK, 'input.json')
    ypath = os.path.join(WORK, 'input.yaml')
    chk = _Checker(col, 'C16.dict')

    def cases():
        for c in _dict_systematic(tier):
            yield c
        for _ in range(1000 if tier == 'quick' else 22000):
            yield _dcase(_rand_dict(rnd), 'random-dict', 'random dictionary over the odML keys')
        for c in _dict_hostile(tier, random.Random('c16-dict-hostile-%s' % seed)):
            yield c
        for c in _dict_keys_py(tier):
            yield c
        for c in _dict_keys_yaml(tier):
            yield c

    try:
        with _silence():
            for ci, case in enumerate(cases()):
                _classify_dict(case)
                data = case['data']
                jtext = ytext = None
                if 'ytext' not in case and not _has_py_objects(data):
                    try:
                        jtext = json.dumps(data)
                    except (TypeError, ValueError):
                        jtext = None
                try:
                    ytext = yaml.dump(data, Dumper=_YDUMPER, sort_keys=False) if case.get('yaml', True) else None
                except Exception:                # noqa
                    ytext = None
                if tier == 'quick' and ((case['fam'] == 'set-key' and ci % 8) or (case['fam'] == 'random-dict' and ci % 2)
                                        or (case['fam'] == 'hostile-text' and ci % 4)):
                    ytext = None                 # quick tier: the (slow) YAML entry points on every 8th set-key, 2nd random,
                    #                              4th hostile-text case
                if tier != 'quick' and case['fam'] == 'hostile-text' and ci % 2:
                    ytext = None                 # thorough: YAML on every 2nd hostile-text case (same reader behind it)
                # the text forms must denote the same dictionary, otherwise the case facts do not apply to them
                if jtext is not None:
                    try:
                        if _canon(json.loads(jtext)) != _canon(data):
                            jtext = None
                    except ValueError:
                        jtext = None
                if ytext is not None:
                    try:
                        if _canon(yaml.load(ytext, Loader=_YLOADER)) != _canon(data):
                            ytext = None
                    except Exception:            # noqa
                        ytext = None
                if 'ytext' in case:
                    ytext = case['ytext']        # written by hand; case['data'] is what the generator's loader reads from it
                if jtext is not None:
                    with open(jpath, 'w') as fh:
                        fh.write(jtext)
                if ytext is not None:
                    with open(ypath, 'w') as fh:
                        fh.write(ytext)
                plan = [('DictReader.to_odml', False), ('DictReader.to_odml', True)]
                if jtext is not None:
                    plan += [('ODMLReader(JSON).from_string', False), ('ODMLReader(JSON).from_file', False)]
                if ytext is not None:
                    plan += [('ODMLReader(YAML).from_string', False), ('ODMLReader(YAML).from_file', True)]
                for entry, lenient in plan:
                    reader = None
                    if entry == 'DictReader.to_odml':
                        reader = DictReader(show_warnings=False, ignore_errors=lenient)
                        out = _run(reader.to_odml, copy.deepcopy(data))
                    elif entry == 'ODMLReader(JSON).from_string':
                        out = _run(ODMLReader('JSON').from_string, jtext)
                    elif entry == 'ODMLReader(JSON).from_file':
                        out = _run(ODMLReader('JSON').from_file, jpath)
                    elif entry == 'ODMLReader(YAML).from_string':
                        out = _run(ODMLReader('YAML').from_string, ytext)
                    else:
                        out = _run(ODMLReader('YAML').from_file, ypath)
                    col.case(cls_key=(case['fam'], case['feat'], zlib.crc32(repr(data).encode('utf-8', 'replace')),
                                      entry, lenient),
                             sample='%s: %s | %s %s' % (case['fam'], case['feat'], entry,
                                                        'lenient' if lenient else 'strict'))
                    chk.check(case, entry, lenient, out, reader.warnings if reader is not None else None)
            # stored forms of JSON / YAML files: encoding, byte order mark, escaping flavour, line ends, file names
            seen_b = set()
            for item in _dict_encoded(tier):
                if (item['fmt'], item['data'], item['name']) in seen_b:
                    continue
                seen_b.add((item['fmt'], item['data'], item['name']))
                fpath = os.path.join(WORK, 'stored.' + item['fmt'].lower())
                if item['name'] is not None:
                    fpath = os.path.join(WORK, 'names', item['name'])
                    try:
                        os.makedirs(os.path.dirname(fpath), exist_ok=True)
                        with open(fpath, 'wb'):
                            pass
                    except (OSError, ValueError):
                        continue                # the file system does not take this name
                _run_dict_file(col, chk, item, fpath)
    finally:
        _cleanup()
    res = _result(col, chk)
    res['yaml_key_texts_skipped_because_the_generators_loader_reads_no_odml_dictionary'] = \
        [_Y_SKIPPED['n'], sorted(_Y_SKIPPED.get('labels', ()))]
    return res
