"""
Bounded stand-in for pure-function contracts: the same sidecar contract is evaluated at run
time on the real function over an enumerated input domain (named generator in the contract
module).  Always labelled `bounded`; never counted as proved.
"""
import importlib
import itertools

from . import native
from pyvc import dsl


def run(contract_module, fid, gen, tier='quick', seed=0, limit=None):
    cmod = importlib.import_module(contract_module)
    c = dsl.REGISTRY[fid]
    fn, kind = native.resolve(c.base_fid)
    real = list(fn.__code__.co_varnames[:fn.__code__.co_argcount])
    params = real + list(c.ghosts)
    genf = getattr(cmod, gen)
    evaluations = 0
    skipped = 0
    shapes = set()
    failures = []
    samples = []
    for args in genf(tier, seed):
        if limit and evaluations >= limit:
            break
        args = list(args)
        try:
            fails = native.check_pure_call(c, cmod, fn, params, args, nreal=len(real))
        except Exception as exc:
            failures.append({'check': '%s#bounded' % fid, 'cls': {'error': type(exc).__name__},
                             'witness': repr(args), 'detail': 'contract evaluation failed: %s' % exc})
            continue
        if fails is None:
            skipped += 1
            continue
        evaluations += 1
        cls = {p: native.shape(a) for p, a in zip(params, args)}
        shapes.add(tuple(sorted(cls.items())))
        if len(samples) < 5:
            samples.append(repr(args))
        for f in fails:
            failures.append({'check': '%s#%s' % (fid, f['obligation']), 'cls': cls, 'witness': repr(args),
                             'detail': 'observed %s; contract requires %s' % (f['observed'], f['expected'])})
    return {'name': fid + '#bounded', 'evaluations': evaluations, 'distinct_nontrivial': len(shapes),
            'rule': 'inputs from %s.%s(tier=%s); distinct = distinct argument shapes (type/sign/emptiness)'
                    % (contract_module, gen, tier),
            'skipped_by_requires': skipped, 'samples': samples, 'failures': failures,
            'exhaustive': True}
