"""
Bounded stand-in for C10: "RDF export is a faithful, well-formed graph that imports back unchanged".

run_graph_shape : export with RDFWriter(docs).convert_to_rdf() (sub-classing off / on / custom map) and check
                  the shape of the rdflib graph with a predicate written from the statement.
run_roundtrip   : {xml, nt, json-ld, turtle, n3} x {string, file, odml.save/odml.load} export + import and
                  compare with an own order-insensitive snapshot.
run_writer_history : usage histories of the export side.  Every public export entry point of RDFWriter
                  (convert_to_rdf, str(), __unicode__(), get_rdf_str(fmt), write_file(path, fmt)) called 1..3 times in
                  every order on ONE instance and on fresh instances over the same document objects, optionally with
                  the documents edited between two calls (composite edit + one of DOC_EDITS, rotating); one
                  ODMLWriter('RDF') instance used for several documents.
                  Every produced graph / text / file is judged on its own with the graph-shape predicate and the
                  import comparison: what an export yields must not depend on what the instance did before.
run_reader_history : usage histories of the import side.  One RDFReader (from_string, from_file, to_odml, constructor
                  with file), one ODMLReader('RDF') (from_string, from_file) and a new RDFReader per call used 1..3
                  times in every order (1) on texts/files of two different document sets, (2) on texts/files of
                  VERSIONS of the same documents: exported, edited in place through the public API with all ids kept
                  (DOC_EDITS / LIST_EDITS: every attribute, values, added / removed / moved / renamed / replaced
                  Properties and Sections, other list of documents), exported again - graphs that use the same node
                  names for different content; optionally the caller edits the documents he got between two calls.
                  Every call returns exactly the documents of the graph it was given.

The oracle never uses odml.format / the writer's tables: namespace, predicate names and the sub-class map
(read from the yaml resource, which is data) are spelled out here.
"""
from __future__ import annotations

import datetime as dt
import itertools
import os
import random
import shutil

import yaml
from rdflib import Graph, Literal, URIRef
from rdflib.namespace import RDF, RDFS

from rcc import harness as h

odml = h.odml
from odml.tools.rdf_converter import RDFWriter, RDFReader       # noqa: E402
from odml.tools.odmlparser import ODMLReader                     # noqa: E402

NS = 'https://g-node.org/odml-rdf#'
HUB = URIRef(NS + 'Hub')


def U(local):
    return URIRef(NS + local)


# python attribute (private field) -> RDF predicate local name, per kind; written from the odML RDF model
DOC_LIT = {'_author': 'hasAuthor', '_version': 'hasDocVersion', '_date': 'hasDate'}
SEC_LIT = {'_name': 'hasName', 'type': 'hasType', '_definition': 'hasDefinition', '_reference': 'hasReference'}
PROP_LIT = {'_name': 'hasName', '_definition': 'hasDefinition', '_dtype': 'hasDtype', '_unit': 'hasUnit',
            '_uncertainty': 'hasUncertainty', '_reference': 'hasReference', '_value_origin': 'hasValueOrigin'}

FORMATS = ('xml', 'nt', 'json-ld', 'turtle', 'n3')
EXT = {'xml': '.rdf', 'nt': '.nt', 'json-ld': '.jsonld', 'turtle': '.ttl', 'n3': '.n3'}
CUSTOM_MAP = {'t': 'CustomT', 'setup/daq': 'CustomDaq', 'recording': 'MyRecording'}
# scratch directories, created and removed by the run_* functions; per process, so that two runs (other tree,
# other tier) at the same time do not remove each other's files
WORKDIR = os.path.join(h.WORK, 'b_C10.%d.tmp' % os.getpid())


def default_subclass_map():
    path = os.path.join(h.REPO, 'odml', 'resources', 'section_subclasses.yaml')
    with open(path) as f:
        return yaml.safe_load(f)


# ---------------------------------------------------------------------------------------------
# documents
# ---------------------------------------------------------------------------------------------

def special_docs():
    """(label, document) - documents aimed at the quantifier's value classes."""
    out = []
    with h.quiet():
        # every dtype / value list of the pool
        doc = odml.Document(author='Ann B.', version='v2', date=dt.date(2020, 5, 17))
        sec = odml.Section(name='all', type='recording', parent=doc)
        for p in h.all_dtype_props():
            sec.append(p)
        out.append(('all-dtypes', doc))

        # numeric fidelity / text
        doc = odml.Document(author='me')
        sec = odml.Section(name='num', type='t', parent=doc, definition='d "q" \'s\' <&> é\nnl', reference='r,;')
        odml.Property(name='f', dtype='float', parent=sec,
                      values=[3.141592653589793, 1234567.891, 0.1 + 0.2, 5e-324, 1.7976931348623157e308, -0.0])
        odml.Property(name='i', dtype='int', parent=sec, values=[2 ** 63, -(10 ** 30), 0, 7])
        odml.Property(name='s', dtype='string', parent=sec,
                      values=['q"uo\'te', 'nl\nnl', 'tab\tx', 'é ü 漢字 µ', 'back\\slash', ' lead', '<a>&amp;</a>', '12',
                              'true', '1.0'])
        odml.Property(name='txt', dtype='text', parent=sec, values=['first\nsecond "x"\n', 'ß'])
        odml.Property(name='b', dtype='boolean', parent=sec, values=[True, False, False])
        odml.Property(name='dtm', dtype='datetime', parent=sec,
                      values=[dt.datetime(1999, 12, 31, 23, 59, 59), dt.datetime(2020, 1, 2, 3, 4, 5)])
        odml.Property(name='order', dtype='int', parent=sec, values=[5, 4, 3, 2, 1, 10, 9, 8, 7, 6, 11, 12])
        odml.Property(name='sorder', dtype='string', parent=sec, values=['b', 'a', 'b', 'c', 'a'])
        odml.Property(name='empty', dtype='string', parent=sec, values=[])
        odml.Property(name='nodtype', parent=sec, values=[])
        out.append(('numeric-and-text', doc))

        # uncertainties (incl. numerically falsy ones) and all optional property attributes
        doc = odml.Document()
        sec = odml.Section(name='unc', type='setup/daq', parent=doc)
        for k, u in enumerate([0, 0.0, 0.5, 2, 0.1 + 0.2, 1e-12]):
            odml.Property(name='u%d' % k, dtype='float', values=[1.5], parent=sec, uncertainty=u,
                          unit='µm', definition='d%d' % k, reference='ref', value_origin='f.dat')
        out.append(('uncertainties', doc))

        # tuples
        doc = odml.Document()
        sec = odml.Section(name='tup', type='t', parent=doc)
        odml.Property(name='t2', dtype='2-tuple', values=['(1;2)', '(3;4)'], parent=sec)
        odml.Property(name='t3', dtype='3-tuple', values=['(a;b;c)'], parent=sec)
        out.append(('tuples', doc))

        # section types of the default sub-class map, nested
        doc = odml.Document(author='x')
        s1 = odml.Section(name='rec', type='recording', parent=doc)
        s2 = odml.Section(name='daq', type='hardware/daq', parent=s1)
        odml.Section(name='daq2', type='hardware/daq', parent=s1)
        odml.Section(name='un', type='not/in/map', parent=s2)
        odml.Property(name='p', dtype='int', values=[1], parent=s2)
        out.append(('mapped-section-types', doc))

        # repositories
        doc = odml.Document(repository='http://example.org/terms.xml')
        s1 = odml.Section(name='a', type='t', parent=doc, repository='http://example.org/terms.xml')
        odml.Section(name='b', type='t', parent=s1, repository='http://example.org/other.xml')
        out.append(('repositories', doc))

        out.append(('empty-document', odml.Document()))
    return out


def doc_sets(tier, seed, per_shape, n_lists):
    """Yield (label, [documents]).  Exhaustive over the harness forest shapes, then special documents, then
    lists of 2-3 documents."""
    gen = list(h.gen_docs(tier, seed, per_shape=per_shape))
    for i, d in enumerate(gen):
        yield 'gen[%d]' % i, [d]
    spec = special_docs()
    for label, d in spec:
        yield label, [d]
    # several documents with equal content but different ids (same template built twice, a document and its
    # clone): "one document per exported document with equal ids" must not depend on content differing
    for k, d in enumerate(gen[1:6:2]):
        with h.quiet():
            twin = d.clone()
        yield 'twin[%d]' % k, [d, twin]
    with h.quiet():
        a, b = odml.Document(author='t'), odml.Document(author='t')
        for doc in (a, b):
            sec = odml.Section(name='s', type='t', parent=doc)
            odml.Property(name='p', values=[1, 2], parent=sec)
    yield 'same-template', [a, b]
    yield 'same-template+1', [a, b, gen[2]]
    rnd = random.Random(seed + 17)
    pool = gen + [d for lab, d in spec if lab != 'tuples']
    for k in range(n_lists):
        n = 2 + (k % 2)
        yield 'list%d[%d]' % (n, k), rnd.sample(pool, n)


def features_of(docs):
    """Class key part: which noteworthy features the document set has."""
    f = set()
    nsec = nprop = depth = 0
    for d in docs:
        secs, props = h.walk(d)
        nsec += len(secs)
        nprop += len(props)
        for p in props:
            f.add('dt:%s' % p._dtype)
            if p._uncertainty is not None:
                f.add('unc-falsy' if not p._uncertainty else 'unc')
            if not p._values:
                f.add('novalues')
            elif len(p._values) > 1:
                f.add('multi')
        for s in secs:
            if s._repository is not None:
                f.add('repo')
    return (len(docs), min(nsec, 4), min(nprop, 4), tuple(sorted(f)))


class _Limited(object):
    """Record at most `per_cls` witnesses per failure class, so that frequent classes cannot push rare ones
    out of the collector's failure list."""

    def __init__(self, col, per_cls=6):
        self.col, self.per_cls, self.count = col, per_cls, {}

    def fail(self, check, cls, witness, detail):
        key = (check, tuple(sorted(cls.items())))
        self.count[key] = self.count.get(key, 0) + 1
        if self.count[key] <= self.per_cls:
            self.col.fail(check=check, cls=cls, witness=witness, detail=detail)


# ---------------------------------------------------------------------------------------------
# graph shape
# ---------------------------------------------------------------------------------------------

def _lit_matches(lit, value, approx=False):
    """Does the rdflib literal denote exactly the python value?  approx: floats may differ in the 6th significant
    digit (graphs parsed from turtle / n3 text: known dependency finding of run_roundtrip, not judged twice)."""
    if not isinstance(lit, Literal):
        return False
    if isinstance(value, (dt.date, dt.datetime, dt.time)) and not isinstance(lit.toPython(), type(value)):
        # a date stored with its ISO lexical form is fine too
        return str(lit) == value.isoformat()
    pv = lit.toPython()
    if isinstance(value, bool) or isinstance(pv, bool):
        return type(pv) is type(value) and pv == value
    if isinstance(value, float):
        return isinstance(pv, float) and (repr(pv) == repr(value) or (approx and _close(pv, value)))
    if isinstance(value, int):
        return isinstance(pv, int) and pv == value
    if isinstance(value, str):
        return isinstance(pv, str) and pv == value and lit.datatype in (None, URIRef(
            'http://www.w3.org/2001/XMLSchema#string'))
    return pv == value


def check_graph(g, docs, mode, smap, approx=False):
    """Yield (clause, feature, detail) for every violated clause of the export part of the statement."""
    if not docs:
        return
    # --- hub
    hubs = set(g.subjects(U('hasDocument'), None))
    if hubs != {HUB}:
        yield 'single-hub', 'hub', 'subjects of hasDocument: %r' % sorted(map(str, hubs))
    linked = sorted(str(o) for o in g.objects(HUB, U('hasDocument')))
    want = sorted(NS + d._id for d in docs)
    if linked != want:
        yield 'hub-links-every-document', 'hub', 'hub links %r, documents are %r' % (linked, want)

    all_secs, all_props = [], []
    for d in docs:
        secs, props = h.walk(d)
        all_secs += secs
        all_props += props

    # --- one node per object, typed
    typed_doc = set(g.subjects(RDF.type, U('Document')))
    if typed_doc != {U(d._id) for d in docs}:
        yield 'one-node-per-object', 'document', 'nodes typed Document %d, documents %d' % (len(typed_doc), len(docs))
    typed_prop = set(g.subjects(RDF.type, U('Property')))
    if typed_prop != {U(p._id) for p in all_props}:
        yield 'one-node-per-object', 'property', 'nodes typed Property: %d, properties: %d' % (
            len(typed_prop), len(all_props))
    sec_classes = {U('Section')} | set(g.subjects(RDFS.subClassOf, U('Section')))
    typed_sec = set()
    for c in sec_classes:
        typed_sec |= set(g.subjects(RDF.type, c))
    typed_sec -= {c for c in sec_classes}
    if typed_sec != {U(s._id) for s in all_secs}:
        yield 'one-node-per-object', 'section', 'nodes typed Section or a sub-class: %d, sections: %d' % (
            len(typed_sec), len(all_secs))

    def lits(node, obj, table, kind):
        """literal attributes: present exactly when set, with exactly the value"""
        for field, pred in table.items():
            val = getattr(obj, field)
            got = list(g.objects(node, U(pred)))
            if val is None:
                if got:
                    yield 'exactly-set-attributes', '%s.%s-unset-but-exported' % (kind, pred), \
                        '%s %s: attribute is None but graph has %r' % (kind, obj._id, got)
                continue
            if len(got) != 1 or not _lit_matches(got[0], val, approx):
                if not got and not val and not isinstance(val, str):
                    feat = '%s.%s-falsy-number-not-exported' % (kind, pred)
                elif not got:
                    feat = '%s.%s-missing' % (kind, pred)
                else:
                    feat = '%s.%s-wrong-value' % (kind, pred)
                yield 'exactly-set-attributes', feat, '%s %s: %s is %r but graph has %r' % (
                    kind, obj._id, field, val, [(str(x), str(getattr(x, 'datatype', None))) for x in got])

    def links(node, obj, pred, children, kind):
        got = sorted(str(o) for o in g.objects(node, U(pred)))
        want_ = sorted(NS + c._id for c in children)
        if got != want_:
            yield 'exactly-set-attributes', '%s.%s-children' % (kind, pred), '%s %s: %s -> %r, children are %r' % (
                kind, obj._id, pred, got, want_)

    def repo(node, obj, kind):
        got = list(g.objects(node, U('hasTerminology')))
        if (obj._repository is None and got) or (obj._repository is not None and len(got) != 1):
            yield 'exactly-set-attributes', '%s.hasTerminology' % kind, '%s %s: repository %r, graph has %r' % (
                kind, obj._id, obj._repository, got)

    def extras(node, obj, allowed, kind):
        preds = set(str(p) for p in g.predicates(node, None))
        extra = preds - {NS + a for a in allowed} - {str(RDF.type)}
        # the id is a set attribute too: repeating it as a literal is within the statement, if it is the id
        ids = [str(o) for o in g.objects(node, U('hasId'))]
        if ids == [obj._id]:
            extra.discard(NS + 'hasId')
        if extra:
            yield 'exactly-set-attributes', '%s-extra-predicate' % kind, '%s %s carries unexpected %r' % (
                kind, obj._id, sorted(extra))

    for d in docs:
        node = U(d._id)
        types = set(g.objects(node, RDF.type))
        if types != {U('Document')}:
            yield 'typed-as-class', 'document', 'document %s typed %r' % (d._id, sorted(map(str, types)))
        for x in lits(node, d, DOC_LIT, 'Document'):
            yield x
        for x in links(node, d, 'hasSection', list(list.__iter__(d._sections)), 'Document'):
            yield x
        for x in repo(node, d, 'Document'):
            yield x
        for x in extras(node, d, list(DOC_LIT.values()) + ['hasSection', 'hasTerminology', 'hasFileName'],
                        'Document'):
            yield x

    for s in all_secs:
        node = U(s._id)
        types = set(g.objects(node, RDF.type))
        stype = s.type
        if mode != 'off' and stype in smap:
            cls = U(smap[stype])
            if types != {cls}:
                yield 'typed-as-class', 'section-subclass', 'section %s of type %r typed %r, expected %s' % (
                    s._id, stype, sorted(map(str, types)), cls)
            if (cls, RDFS.subClassOf, U('Section')) not in g:
                yield 'subclass-declared', 'section-subclass', 'no (%s subClassOf Section) triple' % cls
        else:
            if types != {U('Section')}:
                yield 'typed-as-class', 'section-plain(%s)' % mode, 'section %s of type %r typed %r' % (
                    s._id, stype, sorted(map(str, types)))
        for x in lits(node, s, SEC_LIT, 'Section'):
            yield x
        for x in links(node, s, 'hasSection', list(list.__iter__(s._sections)), 'Section'):
            yield x
        for x in links(node, s, 'hasProperty', list(list.__iter__(s._props)), 'Section'):
            yield x
        for x in repo(node, s, 'Section'):
            yield x
        for x in extras(node, s, list(SEC_LIT.values()) + ['hasSection', 'hasProperty', 'hasTerminology'],
                        'Section'):
            yield x

    for p in all_props:
        node = U(p._id)
        types = set(g.objects(node, RDF.type))
        if types != {U('Property')}:
            yield 'typed-as-class', 'property', 'property %s typed %r' % (p._id, sorted(map(str, types)))
        for x in lits(node, p, PROP_LIT, 'Property'):
            yield x
        for x in extras(node, p, list(PROP_LIT.values()) + ['hasValue'], 'Property'):
            yield x
        # values: one rdf:Seq, members rdf:_1..rdf:_n in order
        seqs = list(g.objects(node, U('hasValue')))
        vals = list(p._values)
        if not vals:
            if len(seqs) > 1:
                yield 'values-one-seq', 'no-values', 'property %s without values has %d hasValue' % (
                    p._id, len(seqs))
            continue
        if len(seqs) != 1:
            yield 'values-one-seq', 'seq-count', 'property %s with %d values has %d hasValue objects' % (
                p._id, len(vals), len(seqs))
            continue
        seq = seqs[0]
        if (seq, RDF.type, RDF.Seq) not in g:
            yield 'values-one-seq', 'seq-type', 'value container of %s is not typed rdf:Seq' % p._id
        members = {}
        other = []
        for pred, obj in g.predicate_objects(seq):
            ps = str(pred)
            if ps == str(RDF.type):
                continue
            if ps.startswith(str(RDF) + '_') and ps[len(str(RDF)) + 1:].isdigit():
                members.setdefault(int(ps[len(str(RDF)) + 1:]), []).append(obj)
            else:
                other.append(ps)
        if other or sorted(members) != list(range(1, len(vals) + 1)) or any(len(v) != 1 for v in members.values()):
            yield 'values-ordered-seq', 'membership', 'property %s: %d values, members %r, others %r' % (
                p._id, len(vals), sorted(members), other)
            continue
        if p._dtype and p._dtype.endswith('-tuple'):
            # representation of a tuple inside one literal is not fixed by the statement: must be a literal
            if not all(isinstance(members[i][0], Literal) for i in members):
                yield 'values-ordered-seq', 'tuple-member-not-literal', 'property %s' % p._id
            continue
        for i, v in enumerate(vals, 1):
            if not _lit_matches(members[i][0], v, approx):
                yield 'values-ordered-seq', 'value-mismatch(%s)' % p._dtype, \
                    'property %s: value %d is %r, member rdf:_%d is %r (%s)' % (
                        p._id, i, v, i, str(members[i][0]), members[i][0].datatype)
                break

    # --- nothing else: every node that carries statements is the Hub, an exported object, the value sequence
    # a Property links, a terminology node linked by hasTerminology, or a class declaration
    known = {HUB} | {U(o._id) for o in list(docs) + all_secs + all_props}
    known |= {o for p in all_props for o in g.objects(U(p._id), U('hasValue'))}
    known |= set(g.objects(None, U('hasTerminology')))
    known |= {U('Section')} | set(g.subjects(RDFS.subClassOf, U('Section')))
    extra = sorted(set(g.subjects()) - known, key=str)
    if extra:
        kinds = sorted({str(t).replace(str(RDF), 'rdf:').replace(NS, 'odml:')
                        for n in extra for t in g.objects(n, RDF.type)}) or ['untyped']
        yield 'no-extra-nodes', '+'.join(kinds), '%d node(s) of the graph belong to no exported object: %r ...' % (
            len(extra), [str(n) for n in extra[:3]])


def run_graph_shape(tier, seed):
    col = h.Collector('C10.graph_shape',
                      rule='document sets: every harness forest shape (<=3 sections quick, <=4 thorough) x random '
                           'attribute fillings, 7 special documents (all dtypes, numeric/text extremes, uncertainties '
                           'incl. 0, tuples, mapped section types, repositories, empty), random lists of 2-3 documents; '
                           'x sub-classing off/on/custom; class = (mode, #docs, #sections, #props, feature set)',
                      exhaustive=False)
    default_map = default_subclass_map()
    custom = dict(default_map)
    custom.update(CUSTOM_MAP)
    modes = (('off', dict(rdf_subclassing=False), {}),
             ('on', dict(), default_map),
             ('custom', dict(custom_subclasses=dict(CUSTOM_MAP)), custom))
    lim = _Limited(col)
    sets = doc_sets(tier, seed, 8, 20) if tier == 'quick' else doc_sets(tier, seed, 30, 150)
    for label, docs in sets:
        feats = features_of(docs)
        for mode, kw, smap in modes:
            col.case(cls_key=(mode,) + feats, sample='%s/%s' % (label, mode))
            arg = docs if len(docs) > 1 else (docs if (seed + len(label)) % 2 else docs[0])
            st, g = h.call(lambda: RDFWriter(arg, **kw).convert_to_rdf())
            if st == 'exc':
                lim.fail(check='C10.graph_shape/export-does-not-raise',
                         cls={'clause': 'export-does-not-raise', 'feature': type(g).__name__},
                         witness={'docs': label, 'mode': mode, 'tier': tier, 'seed': seed},
                         detail='convert_to_rdf raised %r' % (g,))
                continue
            seen = set()
            for clause, feature, detail in check_graph(g, docs, mode, smap):
                if (clause, feature) in seen:
                    continue
                seen.add((clause, feature))
                lim.fail(check='C10.graph_shape/%s' % clause, cls={'clause': clause, 'feature': feature},
                         witness={'docs': label, 'mode': mode, 'tier': tier, 'seed': seed}, detail=detail)
    return col.result()


# ---------------------------------------------------------------------------------------------
# round trip
# ---------------------------------------------------------------------------------------------

D_KEEP = ('_author', '_version', '_date')
S_KEEP = ('_name', 'type', '_definition', '_reference')
P_KEEP = ('_name', '_dtype', '_unit', '_uncertainty', '_reference', '_definition', '_value_origin')


def flat(doc):
    """Order-insensitive snapshot: id -> (kind, parent id, {field: frozen value}) built from harness snapshots."""
    out = {}

    def dup(i):
        k = i
        while k in out:
            k = k + "'"
        return k

    def add_sec(sd, parent):
        sd = dict(sd)
        sid = dup(sd['_id'])
        out[sid] = ('section', parent, {f: sd[f] for f in S_KEEP})
        for pd in sd['props']:
            pd = dict(pd)
            fields = {f: pd[f] for f in P_KEEP}
            fields['values'] = pd['values']
            out[dup(pd['_id'])] = ('property', sid, fields)
        for cd in sd['sections']:
            add_sec(cd, sid)

    dd = dict(h.snap_doc(doc, ids=True, parent=False))
    out[dd['_id']] = ('document', None, {f: h.freeze(dd[f]) for f in D_KEEP})
    for sd in dd['sections']:
        add_sec(sd, dd['_id'])
    return out


def _num(x):
    """numeric reading of a frozen uncertainty (number, ('float', repr) or numeric string)"""
    if isinstance(x, tuple) and x and x[0] == 'float':
        return float(x[1])
    if isinstance(x, bool):
        return None
    if isinstance(x, (int, float)):
        return float(x)
    if isinstance(x, str):
        try:
            return float(x)
        except ValueError:
            return None
    return None


def _close(a, b):
    return a is not None and b is not None and abs(a - b) <= 1e-5 * max(abs(a), abs(b), 1e-300)


def compare(src, got, fmt):
    """Yield (clause, feature, detail) for the differences the statement does not allow."""
    shorthand = fmt in ('turtle', 'n3')
    for oid in src:
        if oid not in got:
            yield 'every-object-imported', '%s-missing' % src[oid][0], '%s %s (%r) missing after import' % (
                src[oid][0], oid, src[oid][2].get('_name'))
    for oid in got:
        if oid not in src:
            yield 'every-object-imported', '%s-extra' % got[oid][0], '%s %s appeared on import' % (got[oid][0], oid)
    for oid, (kind, parent, fields) in src.items():
        if oid not in got:
            continue
        gkind, gparent, gfields = got[oid]
        if gkind != kind or gparent != parent:
            yield 'structure-preserved', kind, '%s %s: parent %r -> %r, kind -> %s' % (kind, oid, parent, gparent, gkind)
            continue
        for f, v in fields.items():
            w = gfields[f]
            if v == w:
                continue
            if f == '_uncertainty':
                a, b = _num(v), _num(w)
                if w is None and a == 0:
                    feat = 'uncertainty-zero-lost'
                elif a is not None and a == b:
                    # same number, other representation (0.8 -> '0.8'); pinned by test_rdf_reader, not flagged
                    continue
                elif shorthand and _close(a, b):
                    feat = 'dependency:rdflib-turtle-n3-shorthand-double-loses-precision(uncertainty)'
                else:
                    feat = 'uncertainty-changed'
            elif f == 'values':
                dtype = fields['_dtype']
                if dtype and str(dtype).endswith('-tuple'):
                    feat = 'tuple-values'
                elif shorthand and len(v) == len(w) and all(
                        x == y or (isinstance(x, tuple) and isinstance(y, tuple) and x[:1] == ('float',) == y[:1]
                                   and _close(float(x[1]), float(y[1]))) for x, y in zip(v, w)):
                    feat = 'dependency:rdflib-turtle-n3-shorthand-double-loses-precision(values)'
                elif sorted(map(repr, v)) == sorted(map(repr, w)):
                    feat = 'values-reordered(%s)' % dtype
                elif v and len(w) > len(v) and len(w) % len(v) == 0 and tuple(w) == tuple(v) * (len(w) // len(v)):
                    feat = 'values-repeated(%s)' % dtype
                else:
                    feat = 'values-changed(%s)' % dtype
            else:
                feat = '%s.%s-changed' % (kind, f.lstrip('_'))
            yield 'attributes-and-values-equal', feat, '%s %s (%r): %s %r -> %r' % (
                kind, oid, fields.get('_name'), f, v, w)


def _has_tuple(docs):
    return any(p._dtype and p._dtype.endswith('-tuple') and p._values for d in docs for p in h.walk(d)[1])


def _saveable(doc):
    """precondition of odml.save: the document has no validation *errors*"""
    from odml.validation import Validation
    st, v = h.call(Validation, doc)
    return st == 'ret' and not any(e.is_error for e in v.errors)


def run_roundtrip(tier, seed):
    col = h.Collector('C10.roundtrip',
                      rule='document sets as in graph_shape x {xml,nt,json-ld,turtle,n3} x entry points '
                           '{get_rdf_str+from_string, write_file+from_file, odml.save+odml.load/ODMLReader (single '
                           'documents without validation errors)}; sub-classing mode rotates; '
                           'class = (format, entry, #docs, #sections, #props, feature set)',
                      exhaustive=False)
    shutil.rmtree(WORKDIR, ignore_errors=True)
    os.makedirs(WORKDIR)
    modes = (dict(), dict(rdf_subclassing=False), dict(custom_subclasses=dict(CUSTOM_MAP)))
    counter = itertools.count()
    lim = _Limited(col)
    try:
        sets = doc_sets(tier, seed, 4, 8) if tier == 'quick' else doc_sets(tier, seed, 10, 40)
        for k, (label, docs) in enumerate(sets):
            feats = features_of(docs)
            src = {d._id: flat(d) for d in docs}
            saveable = len(docs) == 1 and _saveable(docs[0])
            for fi, fmt in enumerate(FORMATS):
                kw = modes[(k + fi) % 3]
                for entry in ('string', 'file', 'save-load'):
                    if entry == 'save-load' and not saveable:
                        continue
                    col.case(cls_key=(fmt, entry) + feats, sample='%s/%s/%s' % (label, fmt, entry))
                    wit = {'docs': label, 'format': fmt, 'entry': entry, 'writer_kwargs': sorted(kw),
                           'tier': tier, 'seed': seed}
                    tup = 'tuple-values' if _has_tuple(docs) else None

                    def fail(clause, feature, detail):
                        lim.fail(check='C10.roundtrip/%s' % clause, cls={'clause': clause, 'feature': feature},
                                 witness=wit, detail=detail)

                    path = os.path.join(WORKDIR, 'f%d%s' % (next(counter), EXT[fmt]))
                    # ---- export
                    if entry == 'string':
                        st, data = h.call(lambda: RDFWriter(list(docs), **kw).get_rdf_str(fmt))
                    elif entry == 'file':
                        st, data = h.call(lambda: RDFWriter(list(docs), **kw).write_file(path, fmt))
                        if st == 'ret' and not os.path.exists(path):
                            cand = [f for f in os.listdir(WORKDIR) if f.startswith(os.path.basename(path))]
                            if len(cand) == 1:
                                path = os.path.join(WORKDIR, cand[0])
                            else:
                                fail('export-writes-file', 'write_file', 'no file written for %s' % path)
                                continue
                    else:
                        st, data = h.call(odml.save, docs[0], path, 'RDF', rdf_format=fmt)
                    if st == 'exc':
                        fail('export-does-not-raise', tup or type(data).__name__, 'export raised %r' % (data,))
                        continue
                    # ---- import
                    if entry == 'string':
                        st, back = h.call(lambda: RDFReader().from_string(data, fmt))
                    elif entry == 'file':
                        st, back = h.call(lambda: RDFReader().from_file(path, fmt))
                    else:
                        if fmt == 'xml':
                            st, back = h.call(odml.load, path, 'RDF')
                            if st == 'exc':
                                fail('import-does-not-raise', 'odml.load-backend-RDF',
                                     'odml.save(doc, f, "RDF") succeeded, odml.load(f, "RDF") raised %r' % (back,))
                        else:
                            # odml.load has no parameter naming the serialisation on the unchanged tree
                            st, back = h.call(odml.load, path, 'RDF', rdf_format=fmt)
                            if st == 'exc' and not isinstance(back, TypeError):
                                fail('import-does-not-raise', 'odml.load-backend-RDF',
                                     'odml.load(f, "RDF", rdf_format=%r) raised %r' % (fmt, back))
                        if st == 'exc':
                            st, back = h.call(lambda: ODMLReader('RDF').from_file(path, fmt))
                    if os.path.exists(path):
                        os.remove(path)
                    if st == 'exc':
                        fail('import-does-not-raise', tup or type(back).__name__, 'import raised %r' % (back,))
                        continue
                    if not isinstance(back, list):
                        back = [back]
                    ids = sorted(getattr(b, '_id', None) for b in back)
                    if len(back) != len(docs) or ids != sorted(src):
                        fail('one-document-per-document', 'count-or-ids',
                             'exported ids %r, imported %r' % (sorted(src), ids))
                        continue
                    seen = set()
                    for b in back:
                        for clause, feature, detail in compare(src[b._id], flat(b), fmt):
                            if (clause, feature) in seen:
                                continue
                            seen.add((clause, feature))
                            fail(clause, feature, detail)
    finally:
        shutil.rmtree(WORKDIR, ignore_errors=True)
    return col.result()


# ---------------------------------------------------------------------------------------------
# usage histories (one writer / reader instance used several times)
# ---------------------------------------------------------------------------------------------
#
# The statement quantifies over exports and imports, not over "the first export of a new writer": what an
# entry point yields for given documents must not depend on what the instance (or another instance) was used
# for before.  Each step of a history is therefore judged on its own, with the same oracles as above.

SINGLE_VALUED = ('hasAuthor', 'hasDocVersion', 'hasDate', 'hasName', 'hasType', 'hasDefinition', 'hasReference',
                 'hasDtype', 'hasUnit', 'hasUncertainty', 'hasValueOrigin', 'hasValue', 'hasTerminology')
W_KINDS = ('convert', 'str', 'string', 'file')                # 'unicode' only in the full alphabet (alias of str)
W_FULL = (('convert',), ('str',), ('unicode',)) + tuple(('string', f) for f in FORMATS) + \
    tuple(('file', f) for f in FORMATS)
WHIST_DIR = os.path.join(h.WORK, 'b_C10.whist.%d.tmp' % os.getpid())
RHIST_DIR = os.path.join(h.WORK, 'b_C10.rhist.%d.tmp' % os.getpid())


def check_functional(g):
    """Reading-independent part of "one node carrying exactly its set attributes": no node carries two
    different statements for an attribute an odML object has only one of."""
    for pred in SINGLE_VALUED:
        count = {}
        for s, _o in g.subject_objects(U(pred)):
            if s == HUB:
                continue              # the Hub lists every terminology of the graph
            count[s] = count.get(s, 0) + 1
        many = sorted(str(s) for s, n in count.items() if n > 1)
        if many:
            yield 'attributes-single-valued', pred, '%d node(s) carry more than one %s, e.g. %s' % (
                len(many), pred, many[0])


def history_doc_sets(tier, seed):
    """(label, [documents]) for the history checks: small enough to run hundreds of histories on each, and
    covering several values per Property, empty Properties, all optional attributes, mapped Section types,
    terminology nodes, equal-content documents and lists of documents."""
    out = []
    with h.quiet():
        doc = odml.Document(author='h', version='1', date=dt.date(2021, 2, 3))
        sec = odml.Section(name='s', type='recording', parent=doc, definition='d "q"\nnl')
        odml.Property(name='ints', dtype='int', parent=sec, values=[3, 1, 2, 2 ** 70])
        odml.Property(name='strs', dtype='string', parent=sec, values=['b', 'a', 'b', 'nl\nnl', 'é "q"'],
                      definition='pd', reference='pr', value_origin='f.dat')
        odml.Property(name='fl', dtype='float', parent=sec, values=[2.5, -0.125], unit='mV', uncertainty=0.5)
        odml.Property(name='empty', dtype='int', parent=sec, values=[])
        sub = odml.Section(name='sub', type='t', parent=sec)
        odml.Property(name='flags', dtype='boolean', parent=sub, values=[True, False, True])
        odml.Property(name='one', dtype='date', parent=sub, values=[dt.date(2020, 1, 2)])
        out.append(('hist-basic', [doc]))

        a, b = odml.Document(author='t'), odml.Document(author='t')
        for d in (a, b):
            sec = odml.Section(name='s', type='t', parent=d)
            odml.Property(name='p', values=[1, 2], parent=sec)
            odml.Property(name='q', values=['x'], parent=sec)
        out.append(('hist-same-template', [a, b]))
    spec = dict(special_docs())
    out.append(('repositories', [spec['repositories']]))
    out.append(('mapped-section-types', [spec['mapped-section-types']]))
    gen = [d for d in h.gen_docs(tier, seed, per_shape=2) if sum(1 for p in h.walk(d)[1] if p._values) >= 2]
    rnd = random.Random(seed + 29)
    rnd.shuffle(gen)
    out.append(('gen-a', [gen[0]]))
    out.append(('gen-list2', [gen[1], gen[2]]))
    if tier != 'quick':
        out.append(('numeric-and-text', [spec['numeric-and-text']]))
        out.append(('uncertainties', [spec['uncertainties']]))
        out.append(('tuples', [spec['tuples']]))
        out.append(('empty-document', [spec['empty-document']]))
        out.append(('gen-list3', [gen[3], gen[4], gen[5]]))
        for k in range(6, min(len(gen), 10)):
            out.append(('gen[%d]' % k, [gen[k]]))
        out.append(('all-dtypes', [spec['all-dtypes']]))          # large: short histories only, see LIGHT
    return out


LIGHT = ('all-dtypes',)


def _edit(docs, k):
    """Edit the first document through the public API: change an attribute, rename, add a value, remove a Property,
    add a Property."""
    with h.quiet():
        d = docs[0]
        d.author = 'edited %d' % k
        secs, props = h.walk(d)
        if not secs:
            odml.Section(name='added%d' % k, type='t', parent=d)
            return
        s = secs[0]
        s.definition = 'edited %d' % k
        s.name = s.name + 'x'
        plain = [p for p in props if p._values and not (p._dtype or '').endswith('-tuple')]
        if plain:
            plain[0].values = list(plain[0].values) + [plain[0].values[0]]
        if len(props) > 1:
            props[-1].parent.remove(props[-1])
        odml.Property(name='added%d' % k, values=[k, k + 1], parent=s)


# ---- edits of documents that have been exported before ---------------------------------------
#
# A graph names every object by its id, and ids survive every edit made through the public API.  Documents that
# are exported, edited and exported again therefore give graphs that use the SAME node names for DIFFERENT content
# (or for content at another place).  Each kind below changes one aspect of the documents in place; the kinds
# together cover every attribute the statement lists, the value sequences, and every structural change that
# keeps ids (add / remove / move / rename / replace by an equal object with a new id).  The list kinds change
# which documents are exported together.

def _fresh_name(base, taken):
    name = base
    while name in taken:
        name += 'x'
    return name


def _names(children):
    return set(c.name for c in children)


def _plain_props(doc):
    return [p for p in h.walk(doc)[1] if not (p.dtype or '').endswith('-tuple')]


SEC_TYPES = ('recording', 't', 'setup/daq', 'x/y', 'hardware/daq')


def _e_none(docs, k):
    pass


def _e_doc_attributes(docs, k):
    for d in docs:
        d.author = '%s ed%d' % (d.author or 'nobody', k)
        d.version = None if d.version else 'v%d' % k
        d.date = dt.date(2001, 1 + k % 12, 1 + k % 28)


def _e_section_attributes(docs, k):
    for d in docs:
        for j, s in enumerate(h.walk(d)[0]):
            s.definition = None if (s.definition and j % 2) else 'sec def ed%d "q" é' % k
            s.reference = None if s.reference else 'sec ref %d' % k
            cand = [t for t in SEC_TYPES if t != s.type]
            s.type = cand[(j + k) % len(cand)]


def _e_section_renamed(docs, k):
    for d in docs:
        for s in h.walk(d)[0]:
            s.name = _fresh_name('%s_r%d' % (s.name, k), _names(s.parent.sections))


def _e_property_attributes(docs, k):
    for d in docs:
        for j, p in enumerate(h.walk(d)[1]):
            p.unit = None if p.unit else 'kHz'
            p.uncertainty = None if p.uncertainty is not None else 0.25 * k
            p.definition = None if (p.definition and j % 2) else 'prop def ed%d' % k
            p.reference = None if p.reference else 'pref%d' % k
            p.value_origin = None if p.value_origin else 'origin%d.dat' % k


def _e_property_renamed(docs, k):
    for d in docs:
        for p in h.walk(d)[1]:
            p.name = _fresh_name('%s_r%d' % (p.name, k), _names(p.parent.properties))


def _e_values_changed(docs, k):
    """other values, other number of values, other order"""
    for d in docs:
        for p in _plain_props(d):
            vals = list(p.values)
            if vals:
                p.values = vals[::-1] + [vals[0]]


def _e_values_shortened(docs, k):
    for d in docs:
        for p in _plain_props(d):
            vals = list(p.values)
            if len(vals) > 1:
                p.values = vals[1:]


def _e_values_emptied_or_filled(docs, k):
    for d in docs:
        for p in _plain_props(d):
            if list(p.values):
                p.values = []
            elif p.dtype in h.VALUE_POOL:
                p.values = list(h.VALUE_POOL[p.dtype][-1])
            else:
                p.values = ['filled %d' % k]


def _e_property_added(docs, k):
    for d in docs:
        for s in h.walk(d)[0]:
            odml.Property(name=_fresh_name('added%d' % k, _names(s.properties)), values=[k, k + 1], parent=s)
            first = odml.Property(name=_fresh_name('first%d' % k, _names(s.properties)), dtype='string',
                                  values=['x%d' % k, 'y'])
            s.insert(0, first)


def _e_property_removed(docs, k):
    for d in docs:
        for s in h.walk(d)[0]:
            props = list(s.properties)
            if props:
                s.remove(props[(k - 1) % len(props)])


def _e_section_added(docs, k):
    for d in docs:
        for parent in [d] + h.walk(d)[0]:
            new = odml.Section(name=_fresh_name('addedsec%d' % k, _names(parent.sections)), type='t', parent=parent)
            odml.Property(name='in-added', values=[k], parent=new)


def _e_section_removed(docs, k):
    """one Section with everything below it: a sub-Section if there is one, else the last top level Section"""
    for d in docs:
        secs = h.walk(d)[0]
        inner = [s for s in secs if s.parent is not d]
        target = inner[0] if inner else (secs[-1] if secs else None)
        if target is not None:
            target.parent.remove(target)


def _e_property_moved(docs, k):
    for d in docs:
        secs, props = h.walk(d)
        for p in props:
            dest = [t for t in secs if t is not p.parent and p.name not in _names(t.properties)]
            if dest:
                p.parent.remove(p)
                dest[0].append(p)
                break


def _e_section_moved(docs, k):
    """a sub-Section becomes a top level Section; without sub-Sections the last top level Section moves below
    the first one"""
    for d in docs:
        secs = h.walk(d)[0]
        inner = [s for s in secs if s.parent is not d and s.name not in _names(d.sections)]
        tops = list(d.sections)
        if inner:
            inner[0].parent.remove(inner[0])
            d.append(inner[0])
        elif len(tops) > 1 and tops[-1].name not in _names(tops[0].sections):
            d.remove(tops[-1])
            tops[0].append(tops[-1])


def _swap_names(a, b):
    na, nb = a.name, b.name
    a.name = na + nb + '-tmp'
    b.name = na
    a.name = nb


def _e_names_swapped(docs, k):
    """two siblings exchange their names: every name is still there, but belongs to another id"""
    for d in docs:
        for parent in [d] + h.walk(d)[0]:
            subs = list(parent.sections)
            if len(subs) > 1:
                _swap_names(subs[0], subs[1])
            if parent is not d:
                props = list(parent.properties)
                if len(props) > 1:
                    _swap_names(props[0], props[-1])


def _e_replaced_by_equal_with_new_id(docs, k):
    """objects removed and objects of equal content but new ids put in their place"""
    for d in docs:
        secs = h.walk(d)[0]
        inner = [s for s in secs if s.parent is not d]
        if inner:
            par = inner[0].parent
            twin = inner[0].clone()
            par.remove(inner[0])
            par.append(twin)
        for s in h.walk(d)[0]:
            props = list(s.properties)
            if props:
                twin = props[0].clone()
                s.remove(props[0])
                s.append(twin)


def _e_composite(docs, k):
    _edit(docs, k)


def _e_section_moved_across_documents(docs, k):
    if len(docs) > 1:
        tops = list(docs[0].sections)
        if tops and tops[0].name not in _names(docs[1].sections):
            docs[0].remove(tops[0])
            docs[1].append(tops[0])


def _e_document_dropped(docs, k):
    if len(docs) > 1:
        docs.pop(0)


def _e_document_added(docs, k):
    twin = docs[0].clone()
    twin.author = 'added document %d' % k
    docs.append(twin)


def _e_documents_reordered_one_edited(docs, k):
    docs.reverse()
    docs[0].author = 'now first %d' % k


# edits of the documents themselves: usable wherever the same document objects are exported again
DOC_EDITS = (
    ('none', _e_none), ('composite', _e_composite),
    ('document-attributes', _e_doc_attributes), ('section-attributes', _e_section_attributes),
    ('section-renamed', _e_section_renamed), ('property-attributes', _e_property_attributes),
    ('property-renamed', _e_property_renamed), ('values-changed', _e_values_changed),
    ('values-shortened', _e_values_shortened), ('values-emptied-or-filled', _e_values_emptied_or_filled),
    ('property-added', _e_property_added), ('property-removed', _e_property_removed),
    ('section-added', _e_section_added), ('section-removed', _e_section_removed),
    ('property-moved', _e_property_moved), ('section-moved', _e_section_moved),
    ('names-swapped', _e_names_swapped), ('replaced-by-equal-with-new-id', _e_replaced_by_equal_with_new_id),
    ('section-moved-across-documents', _e_section_moved_across_documents),
)
# edits of the list of documents that is exported
LIST_EDITS = (
    ('document-dropped', _e_document_dropped), ('document-added', _e_document_added),
    ('documents-reordered-one-edited', _e_documents_reordered_one_edited),
)
EDITS = dict(DOC_EDITS + LIST_EDITS)


def apply_edit(docs, kind, k):
    """Apply one edit kind through the public API.  An edit the library refuses leaves documents that are still
    documents; whatever state results is what the next export has to describe."""
    return h.call(EDITS[kind], docs, k)


def _kind_histories(maxlen, with_edit):
    """All sequences of 1..maxlen steps over the entry point kinds (and 'edit'), ending with an export and
    without two edits in a row."""
    alphabet = W_KINDS + (('edit',) if with_edit else ())
    for n in range(1, maxlen + 1):
        for seq in itertools.product(alphabet, repeat=n):
            if seq[-1] == 'edit' or any(x == y == 'edit' for x, y in zip(seq, seq[1:])):
                continue
            yield seq


def _with_formats(seq, rot):
    """Give every string/file step a serialisation; `rot` rotates so that over all histories every
    serialisation occurs at every position and after every other one."""
    out = []
    for i, kind in enumerate(seq):
        if kind in ('string', 'file'):
            out.append((kind, FORMATS[(rot + i * (1 + rot // len(FORMATS))) % len(FORMATS)]))
        else:
            out.append((kind,))
    return tuple(out)


STALE = '# content of an older file that the export has to replace\n' * 400


def _prefill(path):
    """The target exists already and is longer than anything exported here: the export must replace it."""
    with open(path, 'w', encoding='utf-8') as f:
        f.write(STALE)


def _written(path):
    """(path, text) of the file the export wrote; write_file may add the extension of the serialisation to the
    name it was given.  None if there is no file with new content."""
    d = os.path.dirname(path)
    found = []
    for name in sorted(os.listdir(d)):
        if name.startswith(os.path.basename(path)):
            with open(os.path.join(d, name), encoding='utf-8') as f:
                text = f.read()
            if text != STALE:
                found.append((os.path.join(d, name), text))
    return found[0] if len(found) == 1 else None


def _judge_import(back, snaps, alt_snaps, fmt):
    """Imported documents against the snapshots of the exported ones.  alt_snaps: a second admissible reading
    (documents as they were when the writer was created), failures are reported only if both readings fail."""
    def against(ref):
        res = []
        lst = back if isinstance(back, list) else [back]
        ids = sorted(str(getattr(b, '_id', None)) for b in lst)
        if ids != sorted(ref):
            return [('one-document-per-document', 'count-or-ids', 'exported ids %r, imported %r' % (sorted(ref), ids))]
        for b in lst:
            res.extend(compare(ref[b._id], flat(b), fmt))
        return res
    res = against(snaps)
    if res and alt_snaps is not None and not against(alt_snaps):
        return []
    return [r for r in res if not r[1].startswith('dependency:')]     # judged (and listed as known) by run_roundtrip


def _usage(instance, nth, edited):
    """nth: number of exports made before this one in the history; edited: the documents differ from what they
    were when the writer in use was created"""
    if edited:
        return 'first-export-of-writer-created-before-edit' if (nth == 0 or instance == 'fresh') else \
            'repeated-export-same-writer-after-edit'
    if nth == 0:
        return 'first-export'
    return 'repeated-export-same-writer' if instance == 'same' else 'later-export-new-writer'


def _writer_history(lim, label, base_docs, hist, instance, modeinfo, tier, seed, tag, extra_edit=None):
    """extra_edit: an edit kind of DOC_EDITS applied at every 'edit' step in addition to the composite _edit"""
    mode, kw, smap = modeinfo
    has_edit = ('edit',) in hist
    if has_edit:
        with h.quiet():
            docs = [d.clone() for d in base_docs]
    else:
        docs = list(base_docs)
    wit = {'docs': label, 'history': [list(op) for op in hist], 'instance': instance, 'mode': mode,
           'edit': ['composite', extra_edit] if has_edit else None, 'tier': tier, 'seed': seed}
    ctor = {d._id: flat(d) for d in docs}
    st, writer = h.call(lambda: RDFWriter(list(docs), **kw))
    if st == 'exc':
        lim.fail(check='C10.writer_history/export-does-not-raise',
                 cls={'clause': 'export-does-not-raise', 'feature': type(writer).__name__, 'usage': 'constructor'},
                 witness=wit, detail='RDFWriter(...) raised %r' % (writer,))
        return
    edits = 0
    exports = 0
    for i, op in enumerate(hist):
        kind = op[0]
        if kind == 'edit':
            edits += 1
            _edit(docs, edits)
            if extra_edit:
                apply_edit(docs, extra_edit, edits)
            continue
        if instance == 'fresh' and exports > 0:
            st, writer = h.call(lambda: RDFWriter(list(docs), **kw))
            if st == 'exc':
                lim.fail(check='C10.writer_history/export-does-not-raise',
                         cls={'clause': 'export-does-not-raise', 'feature': type(writer).__name__,
                              'usage': 'constructor'},
                         witness=dict(wit, step=i), detail='RDFWriter(...) raised %r' % (writer,))
                return
            ctor = {d._id: flat(d) for d in docs}
        cur = {d._id: flat(d) for d in docs}
        edited = cur != ctor
        usage = _usage(instance, exports, edited)
        exports += 1

        def fail(clause, feature, detail):
            lim.fail(check='C10.writer_history/%s' % clause,
                     cls={'clause': clause, 'feature': feature, 'usage': usage},
                     witness=dict(wit, step=i), detail='step %d %r: %s' % (i, op, detail))

        fmt = op[1] if len(op) > 1 else 'turtle'
        path = os.path.join(WHIST_DIR, '%s%s' % (tag, EXT[fmt]))
        if kind == 'convert':
            st, res = h.call(writer.convert_to_rdf)
        elif kind == 'str':
            st, res = h.call(str, writer)
        elif kind == 'unicode':
            st, res = h.call(writer.__unicode__)
        elif kind == 'string':
            st, res = h.call(writer.get_rdf_str, fmt)
        else:
            _prefill(path)
            st, res = h.call(writer.write_file, path, fmt)
        if st == 'exc':
            fail('export-does-not-raise', type(res).__name__, 'raised %r' % (res,))
            continue
        # ---- the graph this export describes, read independently of the library
        if kind == 'convert':
            g = res
        else:
            if kind == 'file':
                found = _written(path)
                if found is None:
                    fail('export-writes-file', 'write_file', 'no (single) file with new content for %s' % path)
                    continue
                real, res = found
            if not isinstance(res, str):
                fail('export-yields-text', kind, 'returned %s' % type(res).__name__)
                continue
            st, g = h.call(lambda: Graph().parse(data=res, format=fmt))
            if st == 'exc':
                fail('export-is-parsable', fmt, 'rdflib cannot parse the %s text: %r' % (fmt, g))
                continue
        seen = set()
        mixed = []
        if edited:
            # whether a writer created before an edit exports the old or the new state is left open by the
            # statement; a graph with two names for one node is neither.  One class for all that is stale.
            mixed = list(check_functional(g))
            if mixed:
                fail('one-state-after-edit', 'graph-mixes-old-and-new-statements',
                     '; '.join(d for _c, _f, d in mixed[:4]))
        else:
            for clause, feature, detail in check_graph(g, docs, mode, smap,
                                                       approx=(kind != 'convert' and fmt in ('turtle', 'n3'))):
                if (clause, feature) not in seen:
                    seen.add((clause, feature))
                    fail(clause, feature, detail)
        # ---- import with a new reader
        if kind == 'convert':
            continue
        if kind == 'file':
            st, back = h.call(lambda: RDFReader().from_file(real, fmt))
            os.remove(real)
            if os.path.exists(path):
                os.remove(path)
        else:
            st, back = h.call(lambda: RDFReader().from_string(res, fmt))
        if st == 'exc':
            fail('import-does-not-raise', type(back).__name__, 'import raised %r' % (back,))
            continue
        problems = _judge_import(back, cur, ctor if edited else None, fmt)
        if edited:
            if problems and not mixed:
                fail('one-state-after-edit', 'import-matches-neither-old-nor-new-documents',
                     '; '.join(d for _c, _f, d in problems[:4]))
            continue
        for clause, feature, detail in problems:
            if (clause, feature) not in seen:
                seen.add((clause, feature))
                fail(clause, feature, detail)


def _wrapper_writer_history(lim, docs2, hist, tier, seed, tag):
    """One ODMLWriter('RDF') used for several exports of two different documents."""
    from odml.tools.odmlparser import ODMLWriter
    st, writer = h.call(ODMLWriter, 'RDF')
    wit = {'docs': [lab for lab, _d in docs2], 'history': [list(op) for op in hist], 'instance': 'ODMLWriter',
           'tier': tier, 'seed': seed}
    for i, (kind, which, fmt) in enumerate(hist):
        doc = docs2[which][1]
        cur = {doc._id: flat(doc)}
        usage = 'first-export' if i == 0 else 'repeated-export-same-ODMLWriter'

        def fail(clause, feature, detail):
            lim.fail(check='C10.writer_history/%s' % clause,
                     cls={'clause': clause, 'feature': feature, 'usage': usage},
                     witness=dict(wit, step=i), detail='step %d %r: %s' % (i, (kind, which, fmt), detail))

        path = os.path.join(WHIST_DIR, '%s%s' % (tag, EXT[fmt]))
        if kind == 'string':
            st, res = h.call(writer.to_string, doc, rdf_format=fmt)
        else:
            _prefill(path)
            st, res = h.call(writer.write_file, doc, path, rdf_format=fmt)
        if st == 'exc':
            fail('export-does-not-raise', type(res).__name__, 'raised %r' % (res,))
            continue
        if kind == 'file':
            found = _written(path)
            if found is None:
                fail('export-writes-file', 'ODMLWriter.write_file', 'no (single) file with new content for %s' % path)
                continue
            st, back = h.call(lambda: RDFReader().from_file(found[0], fmt))
            os.remove(found[0])
        else:
            st, back = h.call(lambda: RDFReader().from_string(res, fmt))
        if st == 'exc':
            fail('import-does-not-raise', type(back).__name__, 'import raised %r' % (back,))
            continue
        for clause, feature, detail in _judge_import(back, cur, None, fmt):
            fail(clause, feature, detail)


# edit kinds added to the composite edit of the writer histories, rotating ('none': the composite edit alone)
WRITER_EDITS = tuple(k for k, _f in DOC_EDITS if k != 'composite')


def run_writer_history(tier, seed):
    col = h.Collector('C10.writer_history',
                      rule='histories of 1..3 calls of the export entry points {convert_to_rdf, str, get_rdf_str(fmt), '
                           'write_file(fmt)} (+ "documents edited" between calls) in every order on one RDFWriter and '
                           'on a new RDFWriter per call over the same document objects, serialisations rotating; an edit is the '
                           'composite edit plus one of 17 single-aspect edits (attributes, values, add/remove/move/rename/'
                           'replace of Properties and Sections), rotating; '
                           'the full alphabet of 13 entry point x serialisation pairs (incl. __unicode__) in every '
                           'order up to length 2 (1 document set quick, 8 thorough) / 3 (thorough, one set); histories '
                           'of one ODMLWriter("RDF") over two documents; x 6 (quick) / 16 document sets, sub-classing mode '
                           'rotating; every step judged with the graph-shape predicate on the independently parsed '
                           'output and the import comparison; class = (instance, entry point kinds in order, #docs, '
                           '#sections, #props, feature set)',
                      exhaustive=False)
    shutil.rmtree(WHIST_DIR, ignore_errors=True)
    os.makedirs(WHIST_DIR)
    default_map = default_subclass_map()
    custom = dict(default_map)
    custom.update(CUSTOM_MAP)
    modes = (('on', dict(), default_map),
             ('off', dict(rdf_subclassing=False), {}),
             ('custom', dict(custom_subclasses=dict(CUSTOM_MAP)), custom))
    lim = _Limited(col, per_cls=3)
    quick = tier == 'quick'
    try:
        sets = history_doc_sets(tier, seed)
        n = 0
        for k, (label, docs) in enumerate(sets):
            feats = features_of(docs)
            light = label in LIGHT
            plans = [('same', hist) for hist in _kind_histories(2 if (light or (quick and k >= 5)) else 3, True)]
            plans += [('fresh', hist) for hist in _kind_histories(1 if light else 2 if (quick or k >= 6) else 3, True)]
            for instance, seq in plans:
                n += 1
                hist = _with_formats(seq, n)
                col.case(cls_key=(instance, seq) + feats, sample='%s/%s/%s' % (label, instance, '>'.join(seq)))
                _writer_history(lim, label, docs, hist, instance, modes[(k + n) % 3], tier, seed, 'k%d' % n,
                                extra_edit=WRITER_EDITS[(n // 3) % len(WRITER_EDITS)])
            # full alphabet: every entry point x serialisation after every other one
            if light or k >= (1 if quick else 8):
                continue
            full_len = 3 if (not quick and label == 'hist-same-template') else 2
            for m in range(1, full_len + 1):
                for hist in itertools.product(W_FULL, repeat=m):
                    n += 1
                    col.case(cls_key=('same', hist) + feats,
                             sample='%s/same/%s' % (label, '>'.join('-'.join(op) for op in hist)))
                    _writer_history(lim, label, docs, hist, 'same', modes[(k + n) % 3], tier, seed, 'f%d' % n)
        # one ODMLWriter('RDF') for several documents
        single = [(lab, ds[0]) for lab, ds in sets if len(ds) == 1 and _saveable(ds[0])]
        pairs = [single[:2]] if quick else [single[i:i + 2] for i in range(0, len(single) - 1, 2)]
        ops = [(kind, which) for kind in ('string', 'file') for which in (0, 1)]
        for docs2 in pairs:
            feats = features_of([d for _lab, d in docs2])
            for m in (1, 2, 3):
                for seq in itertools.product(ops, repeat=m):
                    n += 1
                    hist = tuple((kind, which, FORMATS[(n + i) % len(FORMATS)]) for i, (kind, which) in enumerate(seq))
                    col.case(cls_key=('ODMLWriter', seq) + feats,
                             sample='ODMLWriter/%s' % '>'.join('%s%d' % op for op in seq))
                    _wrapper_writer_history(lim, docs2, hist, tier, seed, 'o%d' % n)
    finally:
        shutil.rmtree(WHIST_DIR, ignore_errors=True)
    return col.result()


# ---------------------------------------------------------------------------------------------


def _merged(snaps):
    """{object id: (kind, parent id, fields)} over all documents of a {document id: flat} dict"""
    out = {}
    for f in snaps.values():
        out.update(f)
    return out


def _same_object(a, b, fmt):
    """two entries of flat() describe the same state, as far as compare() judges"""
    if a is None or b is None:
        return a is b
    return not any(not f.startswith('dependency:') for _c, f, _d in compare({0: a}, {0: b}, fmt))


def _explained_by_earlier(back, cur, earlier, fmt):
    """The import returned wrong documents - is every object it got wrong exactly in the state a graph read
    EARLIER in the same history had for that id (attributes, values and parent; absent because the earlier graph
    did not have it below that parent; present a second time at the place it had in the earlier graph)?  Then it
    is one violation, "the import returns content of another graph", whatever attribute happens to differ."""
    lst = back if isinstance(back, list) else [back]
    got = _merged({b._id: flat(b) for b in lst})          # an id met twice is listed as id' by flat()
    want = _merged(cur)
    olds = [_merged(e) for e in earlier]
    if not olds:
        return False
    wrong = [oid for oid in set(want) | set(got) if not _same_object(want.get(oid), got.get(oid), fmt)]

    def explained(oid):
        base = oid.rstrip("'")
        g = got.get(oid)
        if g is not None:
            if base != oid:
                # second occurrence of an id: right if it is the object of this graph or of an earlier one
                g = (g[0], g[1].rstrip("'") if g[1] else g[1], g[2])
                if _same_object(want.get(base), g, fmt):
                    return True
            # the earlier graph may have been read from turtle / n3 text (floats in shorthand): tolerant comparison
            return any(_same_object(o.get(base), g, 'turtle') for o in olds)
        # absent: an earlier graph did not have it at this place, or the object it hangs below is absent itself
        parent = want[oid][1]
        if any(base not in o or o[base][1] != parent for o in olds):
            return True
        return parent is not None and parent in want and parent not in got and explained(parent)

    return bool(wrong) and all(explained(oid) for oid in wrong)


def _reader_history(lim, reader_kind, sources, init, hist, tier, seed, touch=False):
    """sources: {name: {'label', 'snaps', 'text': {fmt: str}, 'file': {fmt: path}}};  init: None or (name, fmt).
    reader_kind: 'RDFReader' / 'ODMLReader' (one instance for the whole history) or 'RDFReader-per-call' (a new
    RDFReader for every step).  touch: the caller edits the documents a call returned before the next call."""
    from odml.tools.odmlparser import ODMLReader as OReader
    per_call = reader_kind == 'RDFReader-per-call'
    wit = {'reader': reader_kind, 'constructed-with': list(init) if init else None,
           'history': [list(op) for op in hist], 'sources': {k: v['label'] for k, v in sources.items()},
           'caller-edits-returned-documents': touch, 'tier': tier, 'seed': seed}
    if reader_kind == 'ODMLReader':
        st, reader = h.call(OReader, 'RDF')
    elif init:
        st, reader = h.call(RDFReader, sources[init[0]]['file'][init[1]], init[1])
    else:
        st, reader = h.call(RDFReader)
    loaded = init               # (source name, fmt) of the graph the reader holds
    if st == 'exc':
        lim.fail(check='C10.reader_history/import-does-not-raise',
                 cls={'clause': 'import-does-not-raise', 'feature': type(reader).__name__, 'usage': 'constructor'},
                 witness=wit, detail='constructor raised %r' % (reader,))
        return
    read_before = [init[0]] if init else []          # names of the graphs given to the reader(s) so far
    for i, op in enumerate(hist):
        kind = op[0]
        if i == 0:
            usage = 'first-import'
        elif per_call:
            usage = 'later-import-new-RDFReader'
        else:
            usage = 'repeated-import-same-%s' % reader_kind

        def fail(clause, feature, detail):
            lim.fail(check='C10.reader_history/%s' % clause,
                     cls={'clause': clause, 'feature': feature, 'usage': usage},
                     witness=dict(wit, step=i), detail='step %d %r: %s' % (i, op, detail))

        if per_call and i > 0:
            st, reader = h.call(RDFReader)
            if st == 'exc':
                fail('import-does-not-raise', type(reader).__name__, 'constructor raised %r' % (reader,))
                return
        if kind == 'to_odml':
            st, back = h.call(reader.to_odml)
        else:
            loaded = (op[1], op[2])
            src = sources[op[1]]
            if kind == 'from_string':
                st, back = h.call(reader.from_string, src['text'][op[2]], op[2])
            else:
                st, back = h.call(reader.from_file, src['file'][op[2]], op[2])
        earlier = [sources[name]['snaps'] for name in read_before]
        if loaded[0] not in read_before:
            read_before.append(loaded[0])
        if st == 'exc':
            fail('import-does-not-raise', type(back).__name__, 'raised %r' % (back,))
            continue
        # judge now: the list handed out may be the reader's own, changed by the next call
        cur = sources[loaded[0]]['snaps']
        problems = _judge_import(back, cur, None, loaded[1])
        if problems and earlier and not any(c == 'one-document-per-document' for c, _f, _d in problems) \
                and _explained_by_earlier(back, cur, earlier, loaded[1]):
            fail('returns-the-documents-of-its-graph', 'content-of-a-graph-read-earlier-under-the-same-ids',
                 '%d difference(s), each of them the state of an earlier graph, e.g. %s' % (
                     len(problems), problems[0][2]))
        else:
            for clause, feature, detail in problems:
                fail(clause, feature, detail)
        if touch:
            # the documents handed out are the caller's: what he does with them is no business of the next import
            lst = [b for b in (back if isinstance(back, list) else [back]) if isinstance(b, odml.doc.BaseDocument)]
            if lst:
                h.call(_edit, lst, i + 1)
                h.call(apply_edit, lst, 'values-changed', i + 1)


def _export_source(label, docs, tag, kw=None, own_serialisation=False):
    """Texts and files of all serialisations of the graph of `docs`; None if an export fails (export failures
    are judged by the other parts).  Default: a new writer and get_rdf_str per serialisation.
    own_serialisation: ONE new writer, ONE convert_to_rdf, the graph written in every serialisation by rdflib
    here (any text of the graph is a legitimate input of the import; creating a writer is expensive)."""
    src = {'label': label, 'snaps': {d._id: flat(d) for d in docs}, 'text': {}, 'file': {}}
    graph = None
    if own_serialisation:
        st, graph = h.call(lambda: RDFWriter(list(docs), **(kw or {})).convert_to_rdf())
        if st == 'exc' or not isinstance(graph, Graph):
            return None
    for fmt in FORMATS:
        if graph is not None:
            st, text = h.call(lambda: graph.serialize(format=fmt))
            if st == 'ret' and isinstance(text, bytes):
                text = text.decode('utf-8')
        else:
            st, text = h.call(lambda: RDFWriter(list(docs), **(kw or {})).get_rdf_str(fmt))
        if st == 'exc' or not isinstance(text, str):
            return None
        src['text'][fmt] = text
        path = os.path.join(RHIST_DIR, '%s%s' % (tag, EXT[fmt]))
        with open(path, 'w', encoding='utf-8') as f:
            f.write(text)
        src['file'][fmt] = path
    return src


def _version_sources(label, base_docs, kinds, tag, kw):
    """The same documents exported, edited in place (ids kept), exported again, ...: [source v0, source v1, ...]
    or None (export failed / first edit does not apply to these documents)."""
    with h.quiet():
        docs = [d.clone() for d in base_docs]
    out = [_export_source('%s@v0' % label, docs, '%s_0' % tag, kw, True)]
    for j, kind in enumerate(kinds, 1):
        apply_edit(docs, kind, j)
        out.append(_export_source('%s@v%d[%s]' % (label, j, kind), docs, '%s_%d' % (tag, j), kw, True))
        if out[-1] is not None and j == 1 and kind != 'none' and out[0] is not None \
                and out[0]['snaps'] == out[1]['snaps']:
            return None
    return None if any(s is None for s in out) else out


def _touching(seq, init):
    return set(op[1] for op in seq if len(op) > 1 and op[1] != 'U') | ({init} if init else set())


def _version_seqs(vnames, with_to_odml, lengths, init, entries=True):
    """Call sequences over (versions + unrelated source 'U') (+ to_odml) that give the reader at least two
    different versions of the same documents.  entries=True: x {from_string, from_file} for every load;
    entries=False: loads are ('load', name), the entry point is chosen by rotation when the history runs."""
    kinds = ('from_string', 'from_file') if entries else ('load',)
    alphabet = [(kind, name) for kind in kinds for name in list(vnames) + ['U']]
    if with_to_odml:
        alphabet.append(('to_odml',))
    for m in lengths:
        for seq in itertools.product(alphabet, repeat=m):
            if init is None and seq[0] == ('to_odml',):
                continue                # precondition of to_odml: a graph has been read
            if len(_touching(seq, init)) >= 2:
                yield seq


def run_reader_history(tier, seed):
    col = h.Collector('C10.reader_history',
                      rule='(1) histories of 1..3 imports in every order on one RDFReader (created empty or with a '
                           'file; from_string / from_file of source A or B, to_odml of the graph it holds) and on one '
                           'ODMLReader("RDF") (from_string / from_file of A or B); A, B = texts and files exported by '
                           'new writers from two different document sets (1 pair quick, 4 pairs thorough). '
                           '(2) versions: the SAME documents exported, edited in place with ids kept (22 edit kinds: '
                           'every attribute, values, add/remove/move/rename/replace of Properties and Sections, names '
                           'swapped, documents added to / dropped from / reordered in the list), exported again (2 '
                           'versions of 2 document sets quick, 3 versions of 7 sets thorough); per (document set, edit '
                           'kind): every order of two versions on one RDFReader (2 of the 4 entry point combinations, '
                           'alternating), on a new RDFReader per call, and constructor-with-file + import; histories '
                           'of up to 3 calls over versions, an unrelated source and to_odml on one RDFReader (empty / '
                           'created with a version) and one ODMLReader, the (document set, edit kind) drawn in '
                           'shuffled rounds.  Serialisations, entry points and sub-classing mode of the export rotate; '
                           'on every third history the caller edits the returned documents between calls.  Every call '
                           'must return exactly the documents of the graph it read; '
                           'class = (reader, start, calls in order, document set + edit kinds or A/B features)',
                      exhaustive=False)
    shutil.rmtree(RHIST_DIR, ignore_errors=True)
    os.makedirs(RHIST_DIR)
    lim = _Limited(col, per_cls=3)
    quick = tier == 'quick'
    try:
        sets = history_doc_sets(tier, seed)
        by = dict(sets)
        pairs = [('hist-same-template', 'hist-basic')]
        if not quick:
            pairs += [('gen-a', 'gen-list2'), ('repositories', 'mapped-section-types'), ('gen-list3', 'uncertainties')]
        n = 0
        plain = {}
        for pi, (la, lb) in enumerate(pairs):
            sources = {}
            for name, lab in (('A', la), ('B', lb)):
                sources[name] = plain[lab] = _export_source(lab, by[lab], 'p%d%s' % (pi, name))
            if sources['A'] is None or sources['B'] is None:
                continue
            feats = features_of(by[la]) + features_of(by[lb])
            loads = [(kind, name) for kind in ('from_string', 'from_file') for name in ('A', 'B')]
            for reader_kind, inits, alphabet in (
                    ('RDFReader', (None, 'A', 'B'), loads + [('to_odml',)]),
                    ('ODMLReader', (None,), loads)):
                for init in inits:
                    for m in (1, 2, 3):
                        for seq in itertools.product(alphabet, repeat=m):
                            if init is None and seq[0] == ('to_odml',):
                                continue          # precondition of to_odml: a graph has been read
                            n += 1
                            hist = tuple(op if op[0] == 'to_odml' else op + (FORMATS[(n + i) % len(FORMATS)],)
                                         for i, op in enumerate(seq))
                            start = (init, FORMATS[n % len(FORMATS)]) if init else None
                            col.case(cls_key=(reader_kind, init, seq) + feats,
                                     sample='%s(%s)/%s' % (reader_kind, init or '', '>'.join('-'.join(op) for op in seq)))
                            _reader_history(lim, reader_kind, sources, start, hist, tier, seed, touch=(n % 3 == 0))

        # ---- (2) versions of the same documents
        modes = (dict(), dict(rdf_subclassing=False), dict(custom_subclasses=dict(CUSTOM_MAP)))
        all_kinds = [k for k, _f in DOC_EDITS + LIST_EDITS]
        if quick:
            plan = [('hist-basic', 'hist-same-template', all_kinds),
                    ('hist-same-template', 'hist-basic', [k for k, _f in LIST_EDITS] + ['values-changed'])]
            nver = 2
        else:
            fam = ['hist-basic', 'hist-same-template', 'mapped-section-types', 'repositories', 'gen-a', 'gen-list2',
                   'numeric-and-text']
            plan = [(lab, fam[(j + 1) % len(fam)], all_kinds) for j, lab in enumerate(fam)]
            nver = 3
        variants = []                     # (family label, edit kinds, {source name: source})
        for fi, (lab, other, kinds) in enumerate(plan):
            if other not in plain:
                plain[other] = _export_source(other, by[other], 'u%d' % fi)
            if plain[other] is None:
                continue
            for ki, kind in enumerate(kinds):
                chain = [kind] + [all_kinds[(all_kinds.index(kind) + 7 * j) % len(all_kinds)] for j in range(1, nver - 1)]
                vs = _version_sources(lab, by[lab], chain, 'v%d_%d' % (fi, ki), modes[(fi + ki) % 3])
                if vs is None:
                    continue
                srcs = {'V%d' % j: s for j, s in enumerate(vs)}
                srcs['U'] = plain[other]
                variants.append((lab, tuple(chain), srcs))
        vnames = ['V%d' % j for j in range(nver)]

        def run(reader_kind, init, seq, variant):
            lab, chain, srcs = variant
            seq = tuple((('from_string', 'from_file')[(n + i) % 2], op[1]) if op[0] == 'load' else op
                        for i, op in enumerate(seq))
            hist = tuple(op if op[0] == 'to_odml' else op + (FORMATS[(n + i) % len(FORMATS)],)
                         for i, op in enumerate(seq))
            start = (init, FORMATS[n % len(FORMATS)]) if init else None
            col.case(cls_key=(reader_kind, init, seq, lab, chain),
                     sample='%s(%s)/%s/%s/%s' % (reader_kind, init or '', '>'.join('-'.join(op) for op in seq),
                                                lab, '+'.join(chain)))
            _reader_history(lim, reader_kind, srcs, start, hist, tier, seed, touch=(n % 3 == 0))

        # every variant: every order of two versions x entry points; one reader, a reader per call, constructor
        # with a file of one version + import of another (half of the entry point combinations per variant,
        # alternating from variant to variant; every order of two versions always)
        entry = ('from_string', 'from_file')
        for vi, variant in enumerate(variants):
            for pi, (va, vb) in enumerate(itertools.permutations(vnames, 2)):
                for e1, e2 in itertools.product((0, 1), repeat=2):
                    if (e1 + e2 + vi + pi) % 2:
                        continue
                    n += 1
                    run('RDFReader', None, ((entry[e1], va), (entry[e2], vb)), variant)
                e = (vi + pi) % 2
                n += 1
                run('RDFReader-per-call', None, ((entry[e], va), (entry[e], vb)), variant)
                n += 1
                run('RDFReader', va, ((entry[1 - e], vb),), variant)
        # longer and interleaved histories, the variant drawn in shuffled rounds; entry points enumerated for the
        # histories of an empty RDFReader / an ODMLReader (thorough), rotating otherwise
        rnd = random.Random(seed + 31)
        pool = []

        def draw():
            if not pool:
                pool.extend(variants)
                rnd.shuffle(pool)
            return pool.pop()

        long_plans = [('RDFReader', None, (3,)), ('ODMLReader', None, (2, 3))]
        long_plans += [('RDFReader', init, (2,) if quick else (2, 3)) for init in vnames]
        if variants:
            for reader_kind, init, lengths in long_plans:
                for seq in _version_seqs(vnames, reader_kind == 'RDFReader', lengths, init,
                                         entries=(not quick and init is None)):
                    n += 1
                    run(reader_kind, init, seq, draw())
    finally:
        shutil.rmtree(RHIST_DIR, ignore_errors=True)
    return col.result()
