"""
Bounded stand-in for C10: "RDF export is a faithful, well-formed graph that imports back unchanged".

run_graph_shape : export with RDFWriter(docs).convert_to_rdf() (sub-classing off / on / custom map) and check
                  the shape of the rdflib graph with a predicate written from the statement.
run_roundtrip   : {xml, nt, json-ld, turtle, n3} x {string, file, odml.save/odml.load} export + import and
                  compare with an own order-insensitive snapshot.

The oracle never uses odml.format / the writer's tables: namespace, predicate names and the sub-class map
(read from the yaml resource, which is data) are spelled out here.
"""
from __future__ import annotations

import datetime as dt
import itertools
import os
import random
import shutil

import yaml
from rdflib import Literal, URIRef
from rdflib.namespace import RDF, RDFS

from rcc import harness as h

odml = h.odml
from odml.tools.rdf_converter import RDFWriter, RDFReader       # noqa: E402
from odml.tools.odmlparser import ODMLReader                     # noqa: E402

NS = 'https://g-node.org/odml-rdf#'
HUB = URIRef(NS + 'Hub')


def U(local):
    return URIRef(NS + local)


# python attribute (private field) -> RDF predicate local name, per kind; written from the odML RDF model
DOC_LIT = {'_author': 'hasAuthor', '_version': 'hasDocVersion', '_date': 'hasDate'}
SEC_LIT = {'_name': 'hasName', 'type': 'hasType', '_definition': 'hasDefinition', '_reference': 'hasReference'}
PROP_LIT = {'_name': 'hasName', '_definition': 'hasDefinition', '_dtype': 'hasDtype', '_unit': 'hasUnit',
            '_uncertainty': 'hasUncertainty', '_reference': 'hasReference', '_value_origin': 'hasValueOrigin'}

FORMATS = ('xml', 'nt', 'json-ld', 'turtle', 'n3')
EXT = {'xml': '.rdf', 'nt': '.nt', 'json-ld': '.jsonld', 'turtle': '.ttl', 'n3': '.n3'}
CUSTOM_MAP = {'t': 'CustomT', 'setup/daq': 'CustomDaq', 'recording': 'MyRecording'}
WORKDIR = os.path.join(h.WORK, 'b_C10.tmp')      # created and removed by run_roundtrip


def default_subclass_map():
    path = os.path.join(h.REPO, 'odml', 'resources', 'section_subclasses.yaml')
    with open(path) as f:
        return yaml.safe_load(f)


# ---------------------------------------------------------------------------------------------
# documents
# ---------------------------------------------------------------------------------------------

def special_docs():
    """(label, document) - documents aimed at the quantifier's value classes."""
    out = []
    with h.quiet():
        # every dtype / value list of the pool
        doc = odml.Document(author='Ann B.', version='v2', date=dt.date(2020, 5, 17))
        sec = odml.Section(name='all', type='recording', parent=doc)
        for p in h.all_dtype_props():
            sec.append(p)
        out.append(('all-dtypes', doc))

        # numeric fidelity / text
        doc = odml.Document(author='me')
        sec = odml.Section(name='num', type='t', parent=doc, definition='d "q" \'s\' <&> é\nnl', reference='r,;')
        odml.Property(name='f', dtype='float', parent=sec,
                      values=[3.141592653589793, 1234567.891, 0.1 + 0.2, 5e-324, 1.7976931348623157e308, -0.0])
        odml.Property(name='i', dtype='int', parent=sec, values=[2 ** 63, -(10 ** 30), 0, 7])
        odml.Property(name='s', dtype='string', parent=sec,
                      values=['q"uo\'te', 'nl\nnl', 'tab\tx', 'é ü 漢字 µ', 'back\\slash', ' lead', '<a>&amp;</a>', '12',
                              'true', '1.0'])
        odml.Property(name='txt', dtype='text', parent=sec, values=['first\nsecond "x"\n', 'ß'])
        odml.Property(name='b', dtype='boolean', parent=sec, values=[True, False, False])
        odml.Property(name='dtm', dtype='datetime', parent=sec,
                      values=[dt.datetime(1999, 12, 31, 23, 59, 59), dt.datetime(2020, 1, 2, 3, 4, 5)])
        odml.Property(name='order', dtype='int', parent=sec, values=[5, 4, 3, 2, 1, 10, 9, 8, 7, 6, 11, 12])
        odml.Property(name='sorder', dtype='string', parent=sec, values=['b', 'a', 'b', 'c', 'a'])
        odml.Property(name='empty', dtype='string', parent=sec, values=[])
        odml.Property(name='nodtype', parent=sec, values=[])
        out.append(('numeric-and-text', doc))

        # uncertainties (incl. numerically falsy ones) and all optional property attributes
        doc = odml.Document()
        sec = odml.Section(name='unc', type='setup/daq', parent=doc)
        for k, u in enumerate([0, 0.0, 0.5, 2, 0.1 + 0.2, 1e-12]):
            odml.Property(name='u%d' % k, dtype='float', values=[1.5], parent=sec, uncertainty=u,
                          unit='µm', definition='d%d' % k, reference='ref', value_origin='f.dat')
        out.append(('uncertainties', doc))

        # tuples
        doc = odml.Document()
        sec = odml.Section(name='tup', type='t', parent=doc)
        odml.Property(name='t2', dtype='2-tuple', values=['(1;2)', '(3;4)'], parent=sec)
        odml.Property(name='t3', dtype='3-tuple', values=['(a;b;c)'], parent=sec)
        out.append(('tuples', doc))

        # section types of the default sub-class map, nested
        doc = odml.Document(author='x')
        s1 = odml.Section(name='rec', type='recording', parent=doc)
        s2 = odml.Section(name='daq', type='hardware/daq', parent=s1)
        odml.Section(name='daq2', type='hardware/daq', parent=s1)
        odml.Section(name='un', type='not/in/map', parent=s2)
        odml.Property(name='p', dtype='int', values=[1], parent=s2)
        out.append(('mapped-section-types', doc))

        # repositories
        doc = odml.Document(repository='http://example.org/terms.xml')
        s1 = odml.Section(name='a', type='t', parent=doc, repository='http://example.org/terms.xml')
        odml.Section(name='b', type='t', parent=s1, repository='http://example.org/other.xml')
        out.append(('repositories', doc))

        out.append(('empty-document', odml.Document()))
    return out


def doc_sets(tier, seed, per_shape, n_lists):
    """Yield (label, [documents]).  Exhaustive over the harness forest shapes, then special documents, then
    lists of 2-3 documents."""
    gen = list(h.gen_docs(tier, seed, per_shape=per_shape))
    for i, d in enumerate(gen):
        yield 'gen[%d]' % i, [d]
    spec = special_docs()
    for label, d in spec:
        yield label, [d]
    # several documents with equal content but different ids (same template built twice, a document and its
    # clone): "one document per exported document with equal ids" must not depend on content differing
    for k, d in enumerate(gen[1:6:2]):
        with h.quiet():
            twin = d.clone()
        yield 'twin[%d]' % k, [d, twin]
    with h.quiet():
        a, b = odml.Document(author='t'), odml.Document(author='t')
        for doc in (a, b):
            sec = odml.Section(name='s', type='t', parent=doc)
            odml.Property(name='p', values=[1, 2], parent=sec)
    yield 'same-template', [a, b]
    yield 'same-template+1', [a, b, gen[2]]
    rnd = random.Random(seed + 17)
    pool = gen + [d for lab, d in spec if lab != 'tuples']
    for k in range(n_lists):
        n = 2 + (k % 2)
        yield 'list%d[%d]' % (n, k), rnd.sample(pool, n)


def features_of(docs):
    """Class key part: which noteworthy features the document set has."""
    f = set()
    nsec = nprop = depth = 0
    for d in docs:
        secs, props = h.walk(d)
        nsec += len(secs)
        nprop += len(props)
        for p in props:
            f.add('dt:%s' % p._dtype)
            if p._uncertainty is not None:
                f.add('unc-falsy' if not p._uncertainty else 'unc')
            if not p._values:
                f.add('novalues')
            elif len(p._values) > 1:
                f.add('multi')
        for s in secs:
            if s._repository is not None:
                f.add('repo')
    return (len(docs), min(nsec, 4), min(nprop, 4), tuple(sorted(f)))


class _Limited(object):
    """Record at most `per_cls` witnesses per failure class, so that frequent classes cannot push rare ones
    out of the collector's failure list."""

    def __init__(self, col, per_cls=6):
        self.col, self.per_cls, self.count = col, per_cls, {}

    def fail(self, check, cls, witness, detail):
        key = (check, tuple(sorted(cls.items())))
        self.count[key] = self.count.get(key, 0) + 1
        if self.count[key] <= self.per_cls:
            self.col.fail(check=check, cls=cls, witness=witness, detail=detail)


# ---------------------------------------------------------------------------------------------
# graph shape
# ---------------------------------------------------------------------------------------------

def _lit_matches(lit, value):
    """Does the rdflib literal denote exactly the python value?"""
    if not isinstance(lit, Literal):
        return False
    if isinstance(value, (dt.date, dt.datetime, dt.time)) and not isinstance(lit.toPython(), type(value)):
        # a date stored with its ISO lexical form is fine too
        return str(lit) == value.isoformat()
    pv = lit.toPython()
    if isinstance(value, bool) or isinstance(pv, bool):
        return type(pv) is type(value) and pv == value
    if isinstance(value, float):
        return isinstance(pv, float) and repr(pv) == repr(value)
    if isinstance(value, int):
        return isinstance(pv, int) and pv == value
    if isinstance(value, str):
        return isinstance(pv, str) and pv == value and lit.datatype in (None, URIRef(
            'http://www.w3.org/2001/XMLSchema#string'))
    return pv == value


def check_graph(g, docs, mode, smap):
    """Yield (clause, feature, detail) for every violated clause of the export part of the statement."""
    if not docs:
        return
    # --- hub
    hubs = set(g.subjects(U('hasDocument'), None))
    if hubs != {HUB}:
        yield 'single-hub', 'hub', 'subjects of hasDocument: %r' % sorted(map(str, hubs))
    linked = sorted(str(o) for o in g.objects(HUB, U('hasDocument')))
    want = sorted(NS + d._id for d in docs)
    if linked != want:
        yield 'hub-links-every-document', 'hub', 'hub links %r, documents are %r' % (linked, want)

    all_secs, all_props = [], []
    for d in docs:
        secs, props = h.walk(d)
        all_secs += secs
        all_props += props

    # --- one node per object, typed
    typed_doc = set(g.subjects(RDF.type, U('Document')))
    if typed_doc != {U(d._id) for d in docs}:
        yield 'one-node-per-object', 'document', 'nodes typed Document %d, documents %d' % (len(typed_doc), len(docs))
    typed_prop = set(g.subjects(RDF.type, U('Property')))
    if typed_prop != {U(p._id) for p in all_props}:
        yield 'one-node-per-object', 'property', 'nodes typed Property: %d, properties: %d' % (
            len(typed_prop), len(all_props))
    sec_classes = {U('Section')} | set(g.subjects(RDFS.subClassOf, U('Section')))
    typed_sec = set()
    for c in sec_classes:
        typed_sec |= set(g.subjects(RDF.type, c))
    typed_sec -= {c for c in sec_classes}
    if typed_sec != {U(s._id) for s in all_secs}:
        yield 'one-node-per-object', 'section', 'nodes typed Section or a sub-class: %d, sections: %d' % (
            len(typed_sec), len(all_secs))

    def lits(node, obj, table, kind):
        """literal attributes: present exactly when set, with exactly the value"""
        for field, pred in table.items():
            val = getattr(obj, field)
            got = list(g.objects(node, U(pred)))
            if val is None:
                if got:
                    yield 'exactly-set-attributes', '%s.%s-unset-but-exported' % (kind, pred), \
                        '%s %s: attribute is None but graph has %r' % (kind, obj._id, got)
                continue
            if len(got) != 1 or not _lit_matches(got[0], val):
                if not got and not val and not isinstance(val, str):
                    feat = '%s.%s-falsy-number-not-exported' % (kind, pred)
                elif not got:
                    feat = '%s.%s-missing' % (kind, pred)
                else:
                    feat = '%s.%s-wrong-value' % (kind, pred)
                yield 'exactly-set-attributes', feat, '%s %s: %s is %r but graph has %r' % (
                    kind, obj._id, field, val, [(str(x), str(getattr(x, 'datatype', None))) for x in got])

    def links(node, obj, pred, children, kind):
        got = sorted(str(o) for o in g.objects(node, U(pred)))
        want_ = sorted(NS + c._id for c in children)
        if got != want_:
            yield 'exactly-set-attributes', '%s.%s-children' % (kind, pred), '%s %s: %s -> %r, children are %r' % (
                kind, obj._id, pred, got, want_)

    def repo(node, obj, kind):
        got = list(g.objects(node, U('hasTerminology')))
        if (obj._repository is None and got) or (obj._repository is not None and len(got) != 1):
            yield 'exactly-set-attributes', '%s.hasTerminology' % kind, '%s %s: repository %r, graph has %r' % (
                kind, obj._id, obj._repository, got)

    def extras(node, obj, allowed, kind):
        preds = set(str(p) for p in g.predicates(node, None))
        extra = preds - {NS + a for a in allowed} - {str(RDF.type)}
        # the id is a set attribute too: repeating it as a literal is within the statement, if it is the id
        ids = [str(o) for o in g.objects(node, U('hasId'))]
        if ids == [obj._id]:
            extra.discard(NS + 'hasId')
        if extra:
            yield 'exactly-set-attributes', '%s-extra-predicate' % kind, '%s %s carries unexpected %r' % (
                kind, obj._id, sorted(extra))

    for d in docs:
        node = U(d._id)
        types = set(g.objects(node, RDF.type))
        if types != {U('Document')}:
            yield 'typed-as-class', 'document', 'document %s typed %r' % (d._id, sorted(map(str, types)))
        for x in lits(node, d, DOC_LIT, 'Document'):
            yield x
        for x in links(node, d, 'hasSection', list(list.__iter__(d._sections)), 'Document'):
            yield x
        for x in repo(node, d, 'Document'):
            yield x
        for x in extras(node, d, list(DOC_LIT.values()) + ['hasSection', 'hasTerminology', 'hasFileName'],
                        'Document'):
            yield x

    for s in all_secs:
        node = U(s._id)
        types = set(g.objects(node, RDF.type))
        stype = s.type
        if mode != 'off' and stype in smap:
            cls = U(smap[stype])
            if types != {cls}:
                yield 'typed-as-class', 'section-subclass', 'section %s of type %r typed %r, expected %s' % (
                    s._id, stype, sorted(map(str, types)), cls)
            if (cls, RDFS.subClassOf, U('Section')) not in g:
                yield 'subclass-declared', 'section-subclass', 'no (%s subClassOf Section) triple' % cls
        else:
            if types != {U('Section')}:
                yield 'typed-as-class', 'section-plain(%s)' % mode, 'section %s of type %r typed %r' % (
                    s._id, stype, sorted(map(str, types)))
        for x in lits(node, s, SEC_LIT, 'Section'):
            yield x
        for x in links(node, s, 'hasSection', list(list.__iter__(s._sections)), 'Section'):
            yield x
        for x in links(node, s, 'hasProperty', list(list.__iter__(s._props)), 'Section'):
            yield x
        for x in repo(node, s, 'Section'):
            yield x
        for x in extras(node, s, list(SEC_LIT.values()) + ['hasSection', 'hasProperty', 'hasTerminology'],
                        'Section'):
            yield x

    for p in all_props:
        node = U(p._id)
        types = set(g.objects(node, RDF.type))
        if types != {U('Property')}:
            yield 'typed-as-class', 'property', 'property %s typed %r' % (p._id, sorted(map(str, types)))
        for x in lits(node, p, PROP_LIT, 'Property'):
            yield x
        for x in extras(node, p, list(PROP_LIT.values()) + ['hasValue'], 'Property'):
            yield x
        # values: one rdf:Seq, members rdf:_1..rdf:_n in order
        seqs = list(g.objects(node, U('hasValue')))
        vals = list(p._values)
        if not vals:
            if len(seqs) > 1:
                yield 'values-one-seq', 'no-values', 'property %s without values has %d hasValue' % (
                    p._id, len(seqs))
            continue
        if len(seqs) != 1:
            yield 'values-one-seq', 'seq-count', 'property %s with %d values has %d hasValue objects' % (
                p._id, len(vals), len(seqs))
            continue
        seq = seqs[0]
        if (seq, RDF.type, RDF.Seq) not in g:
            yield 'values-one-seq', 'seq-type', 'value container of %s is not typed rdf:Seq' % p._id
        members = {}
        other = []
        for pred, obj in g.predicate_objects(seq):
            ps = str(pred)
            if ps == str(RDF.type):
                continue
            if ps.startswith(str(RDF) + '_') and ps[len(str(RDF)) + 1:].isdigit():
                members.setdefault(int(ps[len(str(RDF)) + 1:]), []).append(obj)
            else:
                other.append(ps)
        if other or sorted(members) != list(range(1, len(vals) + 1)) or any(len(v) != 1 for v in members.values()):
            yield 'values-ordered-seq', 'membership', 'property %s: %d values, members %r, others %r' % (
                p._id, len(vals), sorted(members), other)
            continue
        if p._dtype and p._dtype.endswith('-tuple'):
            # representation of a tuple inside one literal is not fixed by the statement: must be a literal
            if not all(isinstance(members[i][0], Literal) for i in members):
                yield 'values-ordered-seq', 'tuple-member-not-literal', 'property %s' % p._id
            continue
        for i, v in enumerate(vals, 1):
            if not _lit_matches(members[i][0], v):
                yield 'values-ordered-seq', 'value-mismatch(%s)' % p._dtype, \
                    'property %s: value %d is %r, member rdf:_%d is %r (%s)' % (
                        p._id, i, v, i, str(members[i][0]), members[i][0].datatype)
                break


def run_graph_shape(tier, seed):
    col = h.Collector('C10.graph_shape',
                      rule='document sets: every harness forest shape (<=3 sections quick, <=4 thorough) x random '
                           'attribute fillings, 7 special documents (all dtypes, numeric/text extremes, uncertainties '
                           'incl. 0, tuples, mapped section types, repositories, empty), random lists of 2-3 documents; '
                           'x sub-classing off/on/custom; class = (mode, #docs, #sections, #props, feature set)',
                      exhaustive=False)
    default_map = default_subclass_map()
    custom = dict(default_map)
    custom.update(CUSTOM_MAP)
    modes = (('off', dict(rdf_subclassing=False), {}),
             ('on', dict(), default_map),
             ('custom', dict(custom_subclasses=dict(CUSTOM_MAP)), custom))
    lim = _Limited(col)
    sets = doc_sets(tier, seed, 8, 20) if tier == 'quick' else doc_sets(tier, seed, 30, 150)
    for label, docs in sets:
        feats = features_of(docs)
        for mode, kw, smap in modes:
            col.case(cls_key=(mode,) + feats, sample='%s/%s' % (label, mode))
            arg = docs if len(docs) > 1 else (docs if (seed + len(label)) % 2 else docs[0])
            st, g = h.call(lambda: RDFWriter(arg, **kw).convert_to_rdf())
            if st == 'exc':
                lim.fail(check='C10.graph_shape/export-does-not-raise',
                         cls={'clause': 'export-does-not-raise', 'feature': type(g).__name__},
                         witness={'docs': label, 'mode': mode, 'tier': tier, 'seed': seed},
                         detail='convert_to_rdf raised %r' % (g,))
                continue
            seen = set()
            for clause, feature, detail in check_graph(g, docs, mode, smap):
                if (clause, feature) in seen:
                    continue
                seen.add((clause, feature))
                lim.fail(check='C10.graph_shape/%s' % clause, cls={'clause': clause, 'feature': feature},
                         witness={'docs': label, 'mode': mode, 'tier': tier, 'seed': seed}, detail=detail)
    return col.result()


# ---------------------------------------------------------------------------------------------
# round trip
# ---------------------------------------------------------------------------------------------

D_KEEP = ('_author', '_version', '_date')
S_KEEP = ('_name', 'type', '_definition', '_reference')
P_KEEP = ('_name', '_dtype', '_unit', '_uncertainty', '_reference', '_definition', '_value_origin')


def flat(doc):
    """Order-insensitive snapshot: id -> (kind, parent id, {field: frozen value}) built from harness snapshots."""
    out = {}

    def dup(i):
        k = i
        while k in out:
            k = k + "'"
        return k

    def add_sec(sd, parent):
        sd = dict(sd)
        sid = dup(sd['_id'])
        out[sid] = ('section', parent, {f: sd[f] for f in S_KEEP})
        for pd in sd['props']:
            pd = dict(pd)
            fields = {f: pd[f] for f in P_KEEP}
            fields['values'] = pd['values']
            out[dup(pd['_id'])] = ('property', sid, fields)
        for cd in sd['sections']:
            add_sec(cd, sid)

    dd = dict(h.snap_doc(doc, ids=True, parent=False))
    out[dd['_id']] = ('document', None, {f: h.freeze(dd[f]) for f in D_KEEP})
    for sd in dd['sections']:
        add_sec(sd, dd['_id'])
    return out


def _num(x):
    """numeric reading of a frozen uncertainty (number, ('float', repr) or numeric string)"""
    if isinstance(x, tuple) and x and x[0] == 'float':
        return float(x[1])
    if isinstance(x, bool):
        return None
    if isinstance(x, (int, float)):
        return float(x)
    if isinstance(x, str):
        try:
            return float(x)
        except ValueError:
            return None
    return None


def _close(a, b):
    return a is not None and b is not None and abs(a - b) <= 1e-5 * max(abs(a), abs(b), 1e-300)


def compare(src, got, fmt):
    """Yield (clause, feature, detail) for the differences the statement does not allow."""
    shorthand = fmt in ('turtle', 'n3')
    for oid in src:
        if oid not in got:
            yield 'every-object-imported', '%s-missing' % src[oid][0], '%s %s (%r) missing after import' % (
                src[oid][0], oid, src[oid][2].get('_name'))
    for oid in got:
        if oid not in src:
            yield 'every-object-imported', '%s-extra' % got[oid][0], '%s %s appeared on import' % (got[oid][0], oid)
    for oid, (kind, parent, fields) in src.items():
        if oid not in got:
            continue
        gkind, gparent, gfields = got[oid]
        if gkind != kind or gparent != parent:
            yield 'structure-preserved', kind, '%s %s: parent %r -> %r, kind -> %s' % (kind, oid, parent, gparent, gkind)
            continue
        for f, v in fields.items():
            w = gfields[f]
            if v == w:
                continue
            if f == '_uncertainty':
                a, b = _num(v), _num(w)
                if w is None and a == 0:
                    feat = 'uncertainty-zero-lost'
                elif a is not None and a == b:
                    # same number, other representation (0.8 -> '0.8'); pinned by test_rdf_reader, not flagged
                    continue
                elif shorthand and _close(a, b):
                    feat = 'dependency:rdflib-turtle-n3-shorthand-double-loses-precision(uncertainty)'
                else:
                    feat = 'uncertainty-changed'
            elif f == 'values':
                dtype = fields['_dtype']
                if dtype and str(dtype).endswith('-tuple'):
                    feat = 'tuple-values'
                elif shorthand and len(v) == len(w) and all(
                        x == y or (isinstance(x, tuple) and isinstance(y, tuple) and x[:1] == ('float',) == y[:1]
                                   and _close(float(x[1]), float(y[1]))) for x, y in zip(v, w)):
                    feat = 'dependency:rdflib-turtle-n3-shorthand-double-loses-precision(values)'
                elif sorted(map(repr, v)) == sorted(map(repr, w)):
                    feat = 'values-reordered(%s)' % dtype
                else:
                    feat = 'values-changed(%s)' % dtype
            else:
                feat = '%s.%s-changed' % (kind, f.lstrip('_'))
            yield 'attributes-and-values-equal', feat, '%s %s (%r): %s %r -> %r' % (
                kind, oid, fields.get('_name'), f, v, w)


def _has_tuple(docs):
    return any(p._dtype and p._dtype.endswith('-tuple') and p._values for d in docs for p in h.walk(d)[1])


def _saveable(doc):
    """precondition of odml.save: the document has no validation *errors*"""
    from odml.validation import Validation
    st, v = h.call(Validation, doc)
    return st == 'ret' and not any(e.is_error for e in v.errors)


def run_roundtrip(tier, seed):
    col = h.Collector('C10.roundtrip',
                      rule='document sets as in graph_shape x {xml,nt,json-ld,turtle,n3} x entry points '
                           '{get_rdf_str+from_string, write_file+from_file, odml.save+odml.load/ODMLReader (single '
                           'documents without validation errors)}; sub-classing mode rotates; '
                           'class = (format, entry, #docs, #sections, #props, feature set)',
                      exhaustive=False)
    shutil.rmtree(WORKDIR, ignore_errors=True)
    os.makedirs(WORKDIR)
    modes = (dict(), dict(rdf_subclassing=False), dict(custom_subclasses=dict(CUSTOM_MAP)))
    counter = itertools.count()
    lim = _Limited(col)
    try:
        sets = doc_sets(tier, seed, 4, 8) if tier == 'quick' else doc_sets(tier, seed, 10, 40)
        for k, (label, docs) in enumerate(sets):
            feats = features_of(docs)
            src = {d._id: flat(d) for d in docs}
            saveable = len(docs) == 1 and _saveable(docs[0])
            for fi, fmt in enumerate(FORMATS):
                kw = modes[(k + fi) % 3]
                for entry in ('string', 'file', 'save-load'):
                    if entry == 'save-load' and not saveable:
                        continue
                    col.case(cls_key=(fmt, entry) + feats, sample='%s/%s/%s' % (label, fmt, entry))
                    wit = {'docs': label, 'format': fmt, 'entry': entry, 'writer_kwargs': sorted(kw),
                           'tier': tier, 'seed': seed}
                    tup = 'tuple-values' if _has_tuple(docs) else None

                    def fail(clause, feature, detail):
                        lim.fail(check='C10.roundtrip/%s' % clause, cls={'clause': clause, 'feature': feature},
                                 witness=wit, detail=detail)

                    path = os.path.join(WORKDIR, 'f%d%s' % (next(counter), EXT[fmt]))
                    # ---- export
                    if entry == 'string':
                        st, data = h.call(lambda: RDFWriter(list(docs), **kw).get_rdf_str(fmt))
                    elif entry == 'file':
                        st, data = h.call(lambda: RDFWriter(list(docs), **kw).write_file(path, fmt))
                        if st == 'ret' and not os.path.exists(path):
                            cand = [f for f in os.listdir(WORKDIR) if f.startswith(os.path.basename(path))]
                            if len(cand) == 1:
                                path = os.path.join(WORKDIR, cand[0])
                            else:
                                fail('export-writes-file', 'write_file', 'no file written for %s' % path)
                                continue
                    else:
                        st, data = h.call(odml.save, docs[0], path, 'RDF', rdf_format=fmt)
                    if st == 'exc':
                        fail('export-does-not-raise', tup or type(data).__name__, 'export raised %r' % (data,))
                        continue
                    # ---- import
                    if entry == 'string':
                        st, back = h.call(lambda: RDFReader().from_string(data, fmt))
                    elif entry == 'file':
                        st, back = h.call(lambda: RDFReader().from_file(path, fmt))
                    else:
                        if fmt == 'xml':
                            st, back = h.call(odml.load, path, 'RDF')
                            if st == 'exc':
                                fail('import-does-not-raise', 'odml.load-backend-RDF',
                                     'odml.save(doc, f, "RDF") succeeded, odml.load(f, "RDF") raised %r' % (back,))
                        else:
                            # odml.load has no parameter naming the serialisation on the unchanged tree
                            st, back = h.call(odml.load, path, 'RDF', rdf_format=fmt)
                            if st == 'exc' and not isinstance(back, TypeError):
                                fail('import-does-not-raise', 'odml.load-backend-RDF',
                                     'odml.load(f, "RDF", rdf_format=%r) raised %r' % (fmt, back))
                        if st == 'exc':
                            st, back = h.call(lambda: ODMLReader('RDF').from_file(path, fmt))
                    if os.path.exists(path):
                        os.remove(path)
                    if st == 'exc':
                        fail('import-does-not-raise', tup or type(back).__name__, 'import raised %r' % (back,))
                        continue
                    if not isinstance(back, list):
                        back = [back]
                    ids = sorted(getattr(b, '_id', None) for b in back)
                    if len(back) != len(docs) or ids != sorted(src):
                        fail('one-document-per-document', 'count-or-ids',
                             'exported ids %r, imported %r' % (sorted(src), ids))
                        continue
                    seen = set()
                    for b in back:
                        for clause, feature, detail in compare(src[b._id], flat(b), fmt):
                            if (clause, feature) in seen:
                                continue
                            seen.add((clause, feature))
                            fail(clause, feature, detail)
    finally:
        shutil.rmtree(WORKDIR, ignore_errors=True)
    return col.result()
