"""
Bounded stand-in for C15: version conversion 1.0 -> 1.1 keeps the content and yields a loadable file.

* generator of odML 1.0 documents as an abstract tree (plain dicts / lists, JSON-able) with three
  independent printers (1.0 XML, 1.0 JSON, 1.0 YAML),
* an independent model of the documented 1.0 -> 1.1 mapping (from the property statement and the
  CHANGELOG entry of the VersionConverter: first encountered attribute wins, differing later ones are
  logged and discarded),
* run_convert(tier, seed): VersionConverter(src).convert(backend) for src in {file path, StringIO}
  x backend in {XML, JSON, YAML}, result checked against the model through XMLReader(ignore_errors=False).
* run_write(tier, seed): VersionConverter.write_to_file writes only the requested file.
* run_history(tier, seed): the state of the source object (StringIO at the start / in the middle / at the end after
  write() or read(), file by absolute / relative / unusual name or read-only, open file handle) x the usage history
  of the converter(s) over that one source object (convert twice, convert and write_to_file in both orders, str()
  or a refused backend first, two converters, the caller rewriting or repositioning the source in between): every
  result obeys the model, repeated results carry the same content, and after every single library call the source
  is what it was: content AND read position AND closed state AND file mode / modification time / directory.

Abstract tree
    doc  = {'attrs': [(tag, text), ...], 'id': idspec, 'secs': [sec, ...]}
    sec  = {'name': str|None, 'type': str, 'attrs': [(tag, text), ...], 'id': idspec,
            'props': [prop, ...], 'secs': [sec, ...], 'name_last': bool}
    prop = {'name': str|None, 'attrs': [(tag, text), ...], 'id': idspec, 'values': [val, ...], 'name_last': bool}
    val  = {'text': str|None, 'attrs': [(tag, text), ...]}
    idspec = None (no id element) | text
    tag '#comment' is an XML comment (XML printer only, ignored by the other printers and by the model).

Every `text` above (value content, attribute content, id) is
    str                       a string (the JSON / YAML printers emit a string, the XML printer the text), or
    {'n': <json scalar>}      a NATIVE JSON / YAML scalar: int, float, true / false, null, a (nested) list, or
    {'n': {'date': iso}}, {'n': {'datetime': 'Y-m-d H:M:S'}}    a native YAML date / timestamp (JSON: ISO text).
The XML printer writes the spelling of the scalar (0 -> '0', 0.0 -> '0.0', false -> 'False' as the 1.0 library
wrote it, date -> ISO); a native null is an UNSET entry: the XML printer leaves the element out (value content:
empty element). The three printers therefore describe the same abstract 1.0 document, and the contract demands
the statement's content from each of them and, on top, the same 1.1 content from all three ("formats-agree").
"""
from __future__ import annotations

import datetime as dt
import hashlib
import io
import itertools
import json
import os
import pathlib
import random
import re
import shutil
import uuid

import yaml
from lxml import etree as ET

from rcc import harness as h

from odml.tools.converters import VersionConverter          # noqa: E402
from odml.tools.xmlparser import XMLReader                   # noqa: E402

WORK = os.path.join(h.WORK, 'c15-%d' % os.getpid())       # per process: runs on different trees may overlap

VAL_ATTRS = ('unit', 'uncertainty', 'type', 'filename', 'definition', 'reference')
# attributes a 1.1 Property / Section / Document may carry (written down from the 1.1 format description)
V11_PROP = {'id', 'name', 'value', 'unit', 'definition', 'dependency', 'dependencyvalue', 'uncertainty',
            'reference', 'type', 'value_origin', 'val_cardinality'}
V11_SEC = {'id', 'type', 'name', 'definition', 'reference', 'link', 'repository', 'section', 'include',
           'property', 'sec_cardinality', 'prop_cardinality'}
V11_DOC = {'id', 'version', 'author', 'date', 'section', 'repository'}

UUID_A = 'aaaaaaaa-aaaa-4aaa-8aaa-aaaaaaaaaaaa'
UUID_B = '0f1e2d3c-4b5a-4978-8695-a4b3c2d1e0f9'
ID_SPECS = [None, UUID_A, UUID_B.upper(), 'not-a-uuid', '', '1', UUID_A[:-1]]


# ---------------------------------------------------------------------------------------------
# constructors
# ---------------------------------------------------------------------------------------------

def V(text, *attrs):
    return {'text': text, 'attrs': [list(a) for a in attrs]}


def P(name, values=(), attrs=(), id=None, name_last=False):
    return {'name': name, 'attrs': [list(a) for a in attrs], 'id': id, 'values': list(values),
            'name_last': name_last}


def S(name, props=(), secs=(), attrs=(), id=None, type_='t', name_last=False):
    return {'name': name, 'type': type_, 'attrs': [list(a) for a in attrs], 'id': id,
            'props': list(props), 'secs': list(secs), 'name_last': name_last}


def D(secs=(), attrs=(('author', 'me'), ('date', '2008-07-07'), ('version', 'v1.13')), id=None):
    return {'attrs': [list(a) for a in attrs], 'id': id, 'secs': list(secs)}


# ---------------------------------------------------------------------------------------------
# native JSON / YAML scalars in text positions
# ---------------------------------------------------------------------------------------------

def N(x):
    """A native (non-string) JSON / YAML scalar."""
    return {'n': x}


def ND(iso):
    return {'n': {'date': iso}}


def NDT(text):
    return {'n': {'datetime': text}}


NULL = N(None)
DT_FORMAT = '%Y-%m-%d %H:%M:%S'


def is_nat(x):
    return isinstance(x, dict)


def nat(x):
    """The Python object a YAML loader hands out for a native scalar."""
    n = x['n']
    if isinstance(n, dict):
        if 'date' in n:
            return dt.date.fromisoformat(n['date'])
        return dt.datetime.strptime(n['datetime'], DT_FORMAT)
    return n


def absent(x):
    """No content at this position: no element / key at all, or a key holding null."""
    return x is None or (is_nat(x) and x['n'] is None)


def kind(x):
    """Stable label of what sits in a text position."""
    if x is None:
        return 'absent'
    if isinstance(x, str):
        return 'string' if x else 'empty-string'
    n = nat(x)
    if n is None:
        return 'native-null'
    if isinstance(n, bool):
        return 'native-bool-true' if n else 'native-bool-false'
    if isinstance(n, int):
        return 'native-int-zero' if n == 0 else ('native-int-negative' if n < 0 else 'native-int')
    if isinstance(n, float):
        return 'native-float-zero' if n == 0 else ('native-float-negative' if n < 0 else 'native-float')
    if isinstance(n, list):
        return 'native-list'
    if isinstance(n, dt.datetime):
        return 'native-datetime'
    if isinstance(n, dt.date):
        return 'native-date'
    return 'native-other'


def spell(x):
    """The text spelling of a text position (what a 1.0 XML file holds for it)."""
    if x is None:
        return ''
    if isinstance(x, str):
        return x
    n = nat(x)
    if n is None:
        return ''
    if isinstance(n, bool):
        return 'True' if n else 'False'
    if isinstance(n, float):
        return repr(n)
    if isinstance(n, int):
        return str(n)
    if isinstance(n, list):
        return json.dumps(n)
    if isinstance(n, dt.datetime):
        return n.strftime(DT_FORMAT)
    return n.isoformat()


def spellings(x):
    """All spellings a log entry may use for a text position."""
    if isinstance(x, str):
        return {x}
    n = nat(x)
    out = {spell(x), str(n)}
    try:
        out.add(json.dumps(n))
    except TypeError:
        pass
    return out


def same_scalar(e, got):
    """Does the 1.1 object `got` (str / number / bool / date from the loaded document) carry the content of
    the abstract text position `e`? Strings must be equal; a native scalar is kept when `got` is that
    scalar or any text spelling of it (0 ~ '0', 0.0 ~ '0.0' ~ '0', false ~ 'False' ~ 'false')."""
    if isinstance(e, str):
        return isinstance(got, str) and got == e
    n = nat(e)
    if isinstance(n, bool):
        if isinstance(got, bool):
            return got == n
        return isinstance(got, str) and got.strip().lower() == str(n).lower()
    if isinstance(n, (int, float)):
        if isinstance(got, bool):
            return False
        if isinstance(got, (int, float)):
            return got == n
        if isinstance(got, str):
            try:
                return (int(got) if isinstance(n, int) else float(got)) == n
            except ValueError:
                try:
                    return float(got) == n
                except ValueError:
                    return False
        return False
    if isinstance(n, (dt.date, dt.datetime)):
        if isinstance(got, str):
            return got.strip() in (spell(e), n.isoformat(), str(n))
        return got == n
    return False


def same_abs(a, b):
    """Two abstract text positions with the same content."""
    if isinstance(a, str) and isinstance(b, str):
        return a == b
    if is_nat(a):
        return same_scalar(a, spell(b) if is_nat(b) else b)
    return same_scalar(b, a)


# ---------------------------------------------------------------------------------------------
# printers (1.0 XML / JSON / YAML), independent of the library
# ---------------------------------------------------------------------------------------------

def _esc(s):
    return s.replace('&', '&amp;').replace('<', '&lt;').replace('>', '&gt;')


def _x_el(tag, text):
    if tag == '#comment':
        return '<!--%s-->' % text
    if absent(text):
        return ''                # an unset entry has no element
    return '<%s>%s</%s>' % (tag, _esc(spell(text)), tag)


def _x_val(v):
    return '<value>%s%s</value>' % (_esc(spell(v['text'])), ''.join(_x_el(t, x) for t, x in v['attrs']))


def _x_prop(p):
    name = [_x_el('name', p['name'])] if p['name'] is not None else []
    body = [_x_el(t, x) for t, x in p['attrs']] + [_x_val(v) for v in p['values']]
    if p['id'] is not None:
        body.append(_x_el('id', p['id']))
    items = body + name if p.get('name_last') else name + body
    return '<property>%s</property>' % ''.join(items)


def _x_sec(s):
    name = [_x_el('name', s['name'])] if s['name'] is not None else []
    name.append(_x_el('type', s['type']))
    body = [_x_el(t, x) for t, x in s['attrs']]
    if s['id'] is not None:
        body.append(_x_el('id', s['id']))
    body += [_x_prop(p) for p in s['props']] + [_x_sec(c) for c in s['secs']]
    items = body + name if s.get('name_last') else name + body
    return '<section>%s</section>' % ''.join(items)


XML_DECL = '<?xml version="1.0" encoding="UTF-8"?>\n'


def to_xml(doc, decl=XML_DECL):
    body = [_x_el(t, x) for t, x in doc['attrs']]
    if doc['id'] is not None:
        body.append(_x_el('id', doc['id']))
    body += [_x_sec(s) for s in doc['secs']]
    return '%s<odML version="1">%s</odML>\n' % (decl, ''.join(body))


def _n(x, fmt):
    """What the dict based source holds at a text position."""
    if not is_nat(x):
        return x
    n = nat(x)
    if isinstance(n, (dt.date, dt.datetime)) and fmt != 'YAML':
        return spell(x)          # JSON has no date scalar
    return n


def _d_attrs(d, attrs, fmt, val_level=False):
    for t, x in attrs:
        if t == '#comment':
            continue
        if val_level and t == 'type':
            t = 'dtype'              # the 1.0 dict based formats call the value data type 'dtype'
        if t not in d:
            d[t] = _n(x, fmt)


def _d_val(v, fmt):
    d = {}
    if v['text'] is not None:
        d['value'] = _n(v['text'], fmt)
    _d_attrs(d, v['attrs'], fmt, val_level=True)
    return d


def _d_prop(p, fmt, empties=None):
    d = {}
    if p['name'] is not None and not p.get('name_last'):
        d['name'] = p['name']
    _d_attrs(d, p['attrs'], fmt)
    if p['values'] or empties == 'explicit':
        d['values'] = [_d_val(v, fmt) for v in p['values']]
    if p['id'] is not None:
        d['id'] = _n(p['id'], fmt)
    if p['name'] is not None and p.get('name_last'):
        d['name'] = p['name']
    return d


def _d_sec(s, fmt, empties=None):
    """empties: how containers without content are written: None = as the 1.0 library wrote them ('sections'
    always, 'properties' / 'values' only with content), 'omitted' = none of them, 'explicit' = all of them."""
    d = {}
    if s['name'] is not None and not s.get('name_last'):
        d['name'] = s['name']
    d['type'] = s['type']
    _d_attrs(d, s['attrs'], fmt)
    if s['id'] is not None:
        d['id'] = _n(s['id'], fmt)
    if s['props'] or empties == 'explicit':
        d['properties'] = [_d_prop(p, fmt, empties) for p in s['props']]
    if s['secs'] or empties != 'omitted':
        d['sections'] = [_d_sec(c, fmt, empties) for c in s['secs']]
    if s['name'] is not None and s.get('name_last'):
        d['name'] = s['name']
    return d


def _reorder(obj, order):
    """The same mapping with its keys in another order (key order carries no meaning in JSON / YAML)."""
    if isinstance(obj, list):
        return [_reorder(x, order) for x in obj]
    if isinstance(obj, dict):
        keys = sorted(obj, reverse=(order == 'reversed'))
        return {k: _reorder(obj[k], order) for k in keys}
    return obj


def to_dict(doc, fmt='JSON', order=None, empties=None):
    d = {}
    _d_attrs(d, doc['attrs'], fmt)
    if doc['id'] is not None:
        d['id'] = _n(doc['id'], fmt)
    if doc['secs'] or empties != 'omitted':
        d['sections'] = [_d_sec(s, fmt, empties) for s in doc['secs']]
    out = {'Document': d, 'odml-version': '1'}
    return _reorder(out, order) if order else out


def to_json(doc, order=None, empties=None):
    return json.dumps(to_dict(doc, 'JSON', order, empties), indent=1, ensure_ascii=False)


def to_yaml(doc, order=None, empties=None):
    return yaml.safe_dump(to_dict(doc, 'YAML', order, empties), default_flow_style=False, sort_keys=False,
                          allow_unicode=True)


def to_xml_pretty(doc, decl=''):
    """The same XML document laid out with one element per line (mixed content is left as it is)."""
    root = ET.fromstring(to_xml(doc, decl='').encode('utf-8'))
    return decl + ET.tostring(root, pretty_print=True, encoding='unicode')


PRINTERS = {'XML': (to_xml, '.xml'), 'JSON': (to_json, '.json'), 'YAML': (to_yaml, '.yaml')}


# ---------------------------------------------------------------------------------------------
# model of the documented 1.0 -> 1.1 mapping
# ---------------------------------------------------------------------------------------------

def _first(attrs, tag):
    """Content of the first element `tag` that is set (a null entry is an unset one)."""
    for t, x in attrs:
        if t == tag and not absent(x):
            return x
    return None


def model_prop(p):
    """Expected 1.1 Property content + the texts that get dropped on the way.
    exp[...] is None where the statement prescribes nothing (attribute absent in 1.0, or an EMPTY first
    occurrence followed by a real one: whether '' counts as the "first encountered" one is left open)."""
    exp = {'name': p['name'], 'id': p['id']}
    dropped = []
    pa = [(t, x) for t, x in p['attrs'] if t != '#comment' and not absent(x)]
    exp['dependency'] = _first(pa, 'dependency') or None          # ('' prescribes nothing)
    dv = _first(pa, 'dependency_value')
    if dv is None:
        dv = _first(pa, 'dependencyvalue')
    exp['dependency_value'] = dv or None
    for t, x in pa:
        if t not in ('definition', 'dependency', 'dependency_value', 'dependencyvalue'):
            dropped.append(('prop-unsupported', t, x))
    kept = {}
    open_ = set()
    own = _first(pa, 'definition')
    if own is not None:
        kept['definition'] = own
        if own == '':
            open_.add('definition')
    conflicts = []
    for v in p['values']:
        for t, x in v['attrs']:
            if t == '#comment' or absent(x):
                continue
            if t == 'dtype':
                t = 'type'
            if t not in VAL_ATTRS:
                dropped.append(('value-unsupported', t, x))
                continue
            if t not in kept:
                kept[t] = x
                if x == '':
                    open_.add(t)
            elif t not in open_ and x != '' and not same_abs(kept[t], x):
                conflicts.append((t, x))
    for t in open_:
        kept[t] = None
    exp['values'] = [v['text'] for v in p['values']
                     if not absent(v['text']) and not (isinstance(v['text'], str) and not v['text'].strip())]
    exp['unit'] = kept.get('unit')
    exp['uncertainty'] = kept.get('uncertainty')
    exp['dtype'] = 'text' if kept.get('type') == 'binary' else kept.get('type')
    exp['value_origin'] = kept.get('filename')
    exp['definition'] = kept.get('definition')
    exp['reference'] = kept.get('reference')
    return exp, dropped, conflicts


def conv_value(dtype, s):
    """The value a 1.1 Property of `dtype` holds for the text s (own conversion; raises when s is no such text)."""
    if dtype == 'int':
        return int(s)
    if dtype == 'float':
        return float(s)
    if dtype == 'boolean':
        return {'true': True, 'false': False}[s.lower()]
    if dtype == 'date':
        return dt.date.fromisoformat(s)
    if dtype == 'datetime':
        return dt.datetime.strptime(s, DT_FORMAT)
    return s


def valid_uuid(s):
    if is_nat(s):
        s = nat(s)
    try:
        return uuid.UUID(s) if s and isinstance(s, str) else None
    except (ValueError, AttributeError, TypeError):
        return None


def logged(log, tag, x):
    """Is the dropped content x of element `tag` recorded in the conversion log?"""
    if isinstance(x, str):
        return any(x in str(m) for m in log)
    return any(tag in str(m) and any(sp in str(m) for sp in spellings(x)) for m in log)


# ---------------------------------------------------------------------------------------------
# input features (stable labels explaining why an input is special)
# ---------------------------------------------------------------------------------------------

def values_feature(texts):
    texts = [spell(t) for t in texts if not absent(t) and t != '']
    if len(texts) == 1:
        t = texts[0]
        if t[0] == '[' and t[-1] == ']':
            return 'single-value-in-brackets'
        return 'single-plain-value'
    if not texts:
        return 'no-values'
    if any(',' in t for t in texts):
        return 'comma-in-one-of-several-values'
    if any(t.startswith('"') for t in texts):
        return 'leading-quote-in-one-of-several-values'
    if any('"' in t for t in texts):
        return 'quote-in-one-of-several-values'
    if any('[' in t or ']' in t for t in texts):
        return 'bracket-in-one-of-several-values'
    return 'several-plain-values'


def names_feature(names):
    names = [n for n in names if n is not None]
    if len(set(names)) == len(names):
        return 'no-clash'
    seen = {}
    for n in names:
        seen[n] = seen.get(n, 0) + 1
    for n, k in seen.items():
        for i in range(2, k + 1):
            if '%s-%d' % (n, i) in seen:
                return 'numbered-name-equals-existing-sibling-name'
    return 'plain-clash'


def doc_features(doc, fmt, src):
    """Coarse doc level features in priority order, used to label failures that cannot be localised."""
    out = []

    def natives(level, texts):
        # a set native scalar outside the value elements (the dict based sources only; XML holds its spelling)
        if fmt != 'XML' and any(is_nat(x) and not absent(x) for x in texts):
            out.append('native-scalar-in-%s-attribute' % level)

    natives('document', [x for _, x in doc['attrs']] + [doc['id']])

    def nat_rec(sec):
        natives('section', [x for _, x in sec['attrs']] + [sec['id']])
        for p in sec['props']:
            natives('property', [x for _, x in p['attrs']] + [p['id']])
            if fmt != 'XML' and any(is_nat(v['text']) and absent(v['text']) for v in p['values']):
                out.append('null-value-content')
            if fmt != 'XML' and any(is_nat(x) and absent(x) for v in p['values'] for _, x in v['attrs']):
                out.append('null-value-attribute')
        for c in sec['secs']:
            nat_rec(c)
    for s in doc['secs']:
        nat_rec(s)
    if src.startswith('stringio') and fmt != 'XML':
        out.append('stringio-source-with-%s-backend' % fmt.lower())

    def rec(sec):
        if sec['name'] is None:
            out.append('section-without-name')
        for p in sec['props']:
            if fmt == 'XML':
                if any(t == '#comment' for v in p['values'] for t, _ in v['attrs']):
                    out.append('xml-comment-inside-value')
                if any(t == '#comment' for t, _ in p['attrs']):
                    out.append('xml-comment-inside-property')
        if fmt == 'XML' and any(t == '#comment' for t, _ in sec['attrs']):
            out.append('xml-comment-inside-section')
        nf = names_feature([p['name'] for p in sec['props']])
        if nf != 'no-clash':
            out.append('property-names:' + nf)
        nf = names_feature([c['name'] for c in sec['secs']])
        if nf != 'no-clash':
            out.append('section-names:' + nf)
        for c in sec['secs']:
            rec(c)
    nf = names_feature([c['name'] for c in doc['secs']])
    if nf != 'no-clash':
        out.append('section-names:' + nf)
    for s in doc['secs']:
        rec(s)
    if fmt == 'XML' and any(t == '#comment' for t, _ in doc['attrs']):
        out.append('xml-comment-inside-document')
    seen = []
    for f in out:
        if f not in seen:
            seen.append(f)
    return seen


# ---------------------------------------------------------------------------------------------
# the contract
# ---------------------------------------------------------------------------------------------

class Checker(object):
    def __init__(self, col, per_class=3):
        self.col = col
        self.per_class = per_class
        self.counts = {}

    def fail(self, clause, feature, witness, detail):
        key = (clause, feature)
        self.counts[key] = self.counts.get(key, 0) + 1
        if self.counts[key] > self.per_class:
            return
        self.col.fail(check='%s/%s' % (self.col.name, clause),
                      cls={'clause': clause, 'feature': feature}, witness=witness, detail=detail[:600])

    def summary(self):
        return sorted(('%s | %s' % k, n) for k, n in self.counts.items())


def _name_ok(orig, got):
    if got == orig:
        return True
    if got.startswith(orig + '-') and got[len(orig) + 1:].isdigit():
        return True
    return False


def check_names(ck, kind, orig, got, wit):
    """clashing sibling names are made unique by a numeric suffix; other names are kept."""
    feat = '%s-names:%s' % (kind, names_feature(orig))
    if len(set(got)) != len(got):
        ck.fail('names-unique', feat, wit, 'sibling %s names %r became %r: not unique' % (kind, orig, got))
        return
    for o, g in zip(orig, got):
        if not _name_ok(o, g):
            ck.fail('names-suffix', feat, wit, 'sibling %s name %r became %r (all: %r -> %r); only a numeric '
                    'suffix may be added' % (kind, o, g, orig, got))
        elif orig.count(o) == 1 and g != o and not any(_name_ok(x, o) and x != o for x in orig):
            ck.fail('names-kept', feat, wit, 'non clashing %s name %r became %r (all: %r -> %r)'
                    % (kind, o, g, orig, got))


def check_id(ck, level, spec, got, wit):
    want = valid_uuid(spec)
    gotu = valid_uuid(got)
    label = 'absent' if spec is None else ('valid' if want is not None else 'malformed')
    if spec is not None and want is not None and spec != str(want):
        label = 'valid-noncanonical'
    if is_nat(spec):
        label = 'null' if absent(spec) else 'malformed-' + kind(spec)
    if gotu is None:
        ck.fail('id-valid', '%s-id-%s' % (level, label), wit, '%s id %r became %r which is no uuid' % (level, spec, got))
    elif want is not None and gotu != want:
        ck.fail('id-kept', '%s-id-%s' % (level, label), wit, 'valid %s id %r not kept, became %r' % (level, spec, got))


def check_raw_output(ck, out, wit):
    """Independent look at the produced XML text: 1.1 root, only 1.1 elements, unique sibling names.
    Returns False when a violation was recorded (the strict loader would stumble over the same thing)."""
    ok = True
    try:
        root = ET.fromstring(out.encode('utf-8'), ET.XMLParser(remove_comments=True))
    except Exception as exc:      # noqa
        ck.fail('output-is-xml', 'unclassified', wit, 'result does not parse as XML: %r' % exc)
        return False
    if root.tag != 'odML' or root.get('version') != '1.1':
        ck.fail('output-version', 'root', wit, 'root is <%s version=%r>' % (root.tag, root.get('version')))
        ok = False

    def level(node, allowed, where):
        nonlocal ok
        left = [c.tag for c in node if c.tag not in allowed]
        if left:
            ck.fail('unsupported-removed', 'unsupported-element-left-in-%s' % where, wit,
                    'elements %r are still inside <%s> of the result' % (left, node.tag))
            ok = False
        for c in node:
            if c.tag == 'section':
                level(c, V11_SEC, 'section')
            elif c.tag == 'property':
                level(c, V11_PROP, 'property')
                if any(len(g) for g in c):
                    ck.fail('unsupported-removed', 'nested-element-left-in-property', wit,
                            'property child elements still have children')
                    ok = False
    level(root, V11_DOC, 'document')
    return ok


def _kinds(texts):
    """Label of the native scalars among some text positions ('strings' when there is none)."""
    ks = sorted(set(kind(x) for x in texts if is_nat(x)))
    return '+'.join(ks) if ks else 'strings'


def _non_values(texts):
    """Label for a surplus value: the listed contents that are no value (unset, empty) are the ones to look at."""
    ks = sorted(set(kind(x) for x in texts if absent(x) or x == ''))
    return '+'.join(ks) if ks else _kinds(texts)


def _match_value(e, g, dtype):
    """Does the loaded value g carry the content of the 1.0 value content e? None: no opinion."""
    if isinstance(e, str):
        st, want = h.call(conv_value, dtype, e.strip())
        if st == 'exc':
            return None
        return _canon(want) == _canon(g)
    return same_scalar(e, g)


def check_case(ck, doc, fmt, src, out, log, wit, keep=None):
    """out: converted XML string; log: conversion_log. Compares with the model.
    Returns the observed content {(path, field): (value, label of the native scalars behind it)} for the
    comparison between the source formats, or None when the result could not be loaded."""
    raw_ok = check_raw_output(ck, out, wit)
    st, res = h.call(lambda: XMLReader(ignore_errors=False, show_warnings=False).from_string(out))
    if st == 'exc':
        # duplicate names are reported below through the raw tree; everything else is a load failure
        dup = _raw_duplicate_names(ck, doc, out, wit)
        if raw_ok and not dup:
            feats = doc_features(doc, fmt, src)
            feats = [f for f in feats if f.startswith('null-')] + feats
            ck.fail('loads-strict', feats[0] if feats else 'unclassified:' + type(res).__name__, wit,
                    'XMLReader(ignore_errors=False) raised %s: %s' % (type(res).__name__, res))
        return None
    loaded = res
    if keep is not None:
        keep['loaded'] = loaded
    obs = {}

    check_id(ck, 'document', doc['id'], loaded._id, wit)
    for t, x in doc['attrs']:
        if t not in V11_DOC and t != '#comment' and not absent(x) and x != '' and not logged(log, t, x):
            ck.fail('dropped-is-logged', 'unsupported-element-in-document' + _suffix(x), wit,
                    'document element <%s>%r dropped without a conversion_log entry' % (t, x))

    def secs(parent_exp, parent_got, path):
        got = list(list.__iter__(parent_got._sections))
        obs[(path, 'section-count')] = (len(got), 'strings')
        if len(got) != len(parent_exp):
            ck.fail('section-tree', 'section-count', wit, '%s: %d sections expected, %d found'
                    % (path, len(parent_exp), len(got)))
            return
        check_names(ck, 'section', [s['name'] for s in parent_exp], [g._name for g in got], wit)
        for i, (s, g) in enumerate(zip(parent_exp, got)):
            here = '%s/%s' % (path, s['name'])
            key = '%s/%d' % (path, i)
            obs[(key, 'section-name')] = (g._name, 'strings')
            obs[(key, 'section-type')] = (g.type, 'strings')
            if g.type != s['type']:
                ck.fail('section-tree', 'section-type', wit, '%s: type %r became %r' % (here, s['type'], g.type))
            for tag, field in (('definition', '_definition'), ('reference', '_reference')):
                want = _first(s['attrs'], tag)
                obs[(key, 'section-' + tag)] = (getattr(g, field), _kinds([x for t, x in s['attrs'] if t == tag]))
                if want is not None and want != '' and not same_scalar(want, getattr(g, field)):
                    ck.fail('section-tree', 'section-' + tag + _suffix(want), wit, '%s: %s %r became %r'
                            % (here, tag, want, getattr(g, field)))
            check_id(ck, 'section', s['id'], g._id, wit)
            for t, x in s['attrs']:
                if t not in V11_SEC and t != '#comment' and not absent(x) and x != '' and not logged(log, t, x):
                    ck.fail('dropped-is-logged', 'unsupported-element-in-section' + _suffix(x), wit,
                            '%s: element <%s>%r dropped without a conversion_log entry' % (here, t, x))
            props(s, g, here, key)
            secs(s['secs'], g, key)

    def props(s, g, here, key):
        named = [p for p in s['props'] if p['name'] is not None]
        for p in s['props']:
            if p['name'] is None:
                marker = _first(p['attrs'], 'definition')
                if marker and not logged(log, 'definition', marker):
                    ck.fail('dropped-is-logged', 'property-without-name', wit,
                            '%s: unnamed property (%s) dropped without a conversion_log entry' % (here, marker))
        got = list(list.__iter__(g._props))
        obs[(key, 'property-count')] = (len(got), 'strings')
        if len(got) != len(named):
            ck.fail('properties-kept', 'property-count:' + names_feature([p['name'] for p in named]), wit,
                    '%s: %d named properties expected, %d found' % (here, len(named), len(got)))
            return
        check_names(ck, 'property', [p['name'] for p in named], [q._name for q in got], wit)
        for j, (p, q) in enumerate(zip(named, got)):
            exp, dropped, conflicts = model_prop(p)
            pid = '%s:%s' % (here, p['name'])
            pkey = '%s:%d' % (key, j)
            texts = [v['text'] for v in p['values']]
            vfeat = values_feature(texts)
            obs[(pkey, 'name')] = (q._name, 'strings')
            obs[(pkey, 'dtype')] = (q._dtype, _kinds(_column(p, 'type') + texts))
            # dtype
            if exp['dtype'] is not None and q._dtype != exp['dtype']:
                ck.fail('dtype-kept', ('binary' if exp['dtype'] == 'text' and 'binary' in json.dumps(p) else
                                       'dtype-' + _placement(p, 'type')) + _unset_note(p, 'type'), wit,
                        '%s: dtype %r expected, got %r' % (pid, exp['dtype'], q._dtype))
            # values in order
            gotvals = list(q._values)
            entries = exp['values']
            if any(kind(e) == 'native-list' for e in entries):
                # a list in place of a scalar: the statement does not say whether it is one value or several;
                # the scalar values around it still have to be there, in order
                k = 0
                for e in entries:
                    if kind(e) == 'native-list':
                        continue
                    while k < len(gotvals) and _match_value(e, gotvals[k], q._dtype) is False:
                        k += 1
                    if k >= len(gotvals):
                        ck.fail('values-preserved', 'value-beside-native-list:' + kind(e), wit,
                                '%s: value contents %r became values %r (dtype %r): %r is missing'
                                % (pid, texts, gotvals, q._dtype, e))
                        break
                    k += 1
            else:
                obs[(pkey, 'values')] = (gotvals, _kinds(texts))
                verdicts = [_match_value(e, gv, q._dtype) for e, gv in zip(entries, gotvals)]
                if None not in verdicts and (len(entries) != len(gotvals) or False in verdicts):
                    bad = verdicts.index(False) if False in verdicts else min(len(entries), len(gotvals))
                    lost = _lost(entries, gotvals, q._dtype)
                    if len(gotvals) > len(entries) and any(is_nat(t) for t in texts):
                        vfeat = 'extra-value-beside:' + _non_values(texts)
                    elif len(gotvals) < len(entries) and any(is_nat(entries[i]) for i in lost):
                        vfeat = 'value:' + [kind(entries[i]) for i in lost if is_nat(entries[i])][0]
                    elif bad < len(entries) and is_nat(entries[bad]):
                        vfeat = 'value:' + kind(entries[bad])
                    ck.fail('values-preserved', vfeat, wit, '%s: value elements %r became values %r (dtype %r)'
                            % (pid, texts, gotvals, q._dtype))
            # lifted attributes
            for field, fkey in (('_unit', 'unit'), ('_value_origin', 'value_origin'), ('_definition', 'definition'),
                                ('_reference', 'reference'), ('_dependency', 'dependency'),
                                ('_dependency_value', 'dependency_value')):
                src_tag = {'value_origin': 'filename'}.get(fkey, fkey)
                obs[(pkey, fkey)] = (getattr(q, field), _kinds(_column(p, src_tag)))
                if exp[fkey] is not None and not same_scalar(exp[fkey], getattr(q, field)):
                    ck.fail(fkey + '-kept', '%s-%s%s%s' % (fkey, _placement(p, src_tag), _suffix(exp[fkey]),
                                                         _unset_note(p, src_tag)), wit,
                            '%s: %s %r expected, got %r' % (pid, fkey, exp[fkey], getattr(q, field)))
            obs[(pkey, 'uncertainty')] = (q._uncertainty, _kinds(_column(p, 'uncertainty')))
            if exp['uncertainty'] is not None:
                want = nat(exp['uncertainty']) if is_nat(exp['uncertainty']) else exp['uncertainty']
                try:
                    same = not isinstance(q._uncertainty, bool) and float(q._uncertainty) == float(want)
                except (TypeError, ValueError):
                    same = False
                if not same:
                    ck.fail('uncertainty-kept', 'uncertainty-' + _placement(p, 'uncertainty') +
                            _suffix(exp['uncertainty']) + _unset_note(p, 'uncertainty'), wit,
                            '%s: uncertainty %r expected, got %r' % (pid, exp['uncertainty'], q._uncertainty))
            check_id(ck, 'property', p['id'], q._id, wit)
            for where, t, x in dropped:
                if x != '' and not logged(log, t, x):
                    ck.fail('dropped-is-logged', where + _suffix(x), wit,
                            '%s: element <%s>%r dropped without a conversion_log entry' % (pid, t, x))
            for t, x in conflicts:
                if not logged(log, t, x):
                    ck.fail('dropped-is-logged', 'conflicting-value-attribute-' + t + _suffix(x), wit,
                            '%s: differing later %s %r discarded without a conversion_log entry' % (pid, t, x))

    secs(doc['secs'], loaded, '')
    return obs


def _lost(entries, gotvals, dtype):
    """Indices of the value contents that have no counterpart among the loaded values (order kept). Equal
    contents make this ambiguous; of the left-most and the right-most alignment the one that blames more
    native scalars is taken, for the failure label only."""
    def align(es, gs):
        out, k = [], 0
        for i, e in enumerate(es):
            if k < len(gs) and _match_value(e, gs[k], dtype):
                k += 1
            else:
                out.append(i)
        return out
    left = align(entries, gotvals)
    right = [len(entries) - 1 - i for i in align(entries[::-1], gotvals[::-1])][::-1]
    score = lambda idx: sum(1 for i in idx if is_nat(entries[i]))     # noqa: E731
    best = right if score(right) > score(left) else left
    if best and not score(best):
        # a string blamed although an interchangeable native scalar (0 beside '0') is listed as well
        twins = [j for j, e in enumerate(entries) if is_nat(e) and any(same_abs(e, entries[i]) for i in best)]
        best = twins[:1] + best
    return best


def _suffix(x):
    """Feature suffix naming the native scalar involved ('' for strings, so string features keep their names)."""
    return ':' + kind(x) if is_nat(x) else ''


def _unset_note(p, tag):
    """Feature suffix: the attribute also has unset (null) entries."""
    return ':beside-null-entry' if any(is_nat(x) and absent(x) for x in _column(p, tag)) else ''


def _canon(v):
    if isinstance(v, float):
        return ('f', repr(v))
    if isinstance(v, bool):
        return ('b', v)
    if isinstance(v, int):
        return ('i', v)
    if isinstance(v, str):
        return ('s', v.strip())
    return ('o', repr(v))


def _column(p, tag):
    """All contents given for attribute `tag` of a Property: its own and one entry per value element."""
    tags = (tag, 'dtype') if tag == 'type' else (tag,)
    return [x for t, x in p['attrs'] if t in tags] + [x for v in p['values'] for t, x in v['attrs'] if t in tags]


def _placement(p, tag):
    """Where among the value elements the attribute sits: first / later / all-agree / all-conflict / property."""
    if _first(p['attrs'], tag) is not None:
        return 'on-property'
    tags = (tag, 'dtype') if tag == 'type' else (tag,)
    col = []
    for v in p['values']:
        x = None
        for t in tags:
            if x is None:
                x = _first(v['attrs'], t)
        col.append(x)
    have = [x for x in col if x is not None]
    if not have:
        return 'absent'
    if len(have) == 1:
        return 'on-first-value' if col[0] is not None else 'on-later-value'
    if all(same_abs(have[0], x) for x in have[1:]):
        return 'agreeing-on-several-values'
    return 'conflicting-on-several-values'


def loose_eq(a, b):
    """Same 1.1 content up to the spelling of a scalar (1 ~ '1' ~ 1.0, True ~ 'true')."""
    if isinstance(a, list) and isinstance(b, list):
        return len(a) == len(b) and all(loose_eq(x, y) for x, y in zip(a, b))
    if type(a) is type(b) and a == b:
        return True
    if a is None or b is None or isinstance(a, list) or isinstance(b, list):
        return False
    sa, sb = str(a).strip(), str(b).strip()
    if sa == sb or (sa.lower() == sb.lower() and sa.lower() in ('true', 'false')):
        return True
    try:
        return float(sa) == float(sb)
    except ValueError:
        return False


def check_formats_agree(ck, doc, observed, wit):
    """The XML, JSON and YAML spelling of one abstract 1.0 document convert to the same 1.1 content."""
    base = observed.get('XML')
    if base is None:
        return
    for fmt in ('JSON', 'YAML'):
        other = observed.get(fmt)
        if other is None:
            continue
        for key in sorted(set(base) | set(other)):
            a, b = base.get(key), other.get(key)
            if a is None or b is None or loose_eq(a[0], b[0]):
                continue         # (a missing entry follows a differing count, which is reported)
            ck.fail('formats-agree', '%s:%s' % (key[1], a[1]), dict(wit, format='XML vs ' + fmt),
                    '%s %s: the XML source gives %r, the %s source of the same document gives %r'
                    % (key[0], key[1], a[0], fmt, b[0]))
            break


def _raw_duplicate_names(ck, doc, out, wit):
    """Report sibling name clashes straight from the produced XML (the strict loader refuses them)."""
    try:
        root = ET.fromstring(out.encode('utf-8'), ET.XMLParser(remove_comments=True))
    except Exception:       # noqa
        return False
    found = False

    def rec(node, exp_secs):
        nonlocal found
        got_secs = [c for c in node if c.tag == 'section']
        names = [c.findtext('name') for c in got_secs]
        if len(set(names)) != len(names):
            found = True
            ck.fail('names-unique', 'section-names:' + names_feature([s['name'] for s in exp_secs]), wit,
                    'sibling section names %r became %r: not unique, result does not load'
                    % ([s['name'] for s in exp_secs], names))
        for c, s in zip(got_secs, exp_secs if len(exp_secs) == len(got_secs) else [None] * len(got_secs)):
            pn = [x.findtext('name') for x in c if x.tag == 'property']
            if len(set(pn)) != len(pn):
                found = True
                orig = [p['name'] for p in s['props'] if p['name'] is not None] if s else pn
                ck.fail('names-unique', 'property-names:' + names_feature(orig), wit,
                        'sibling property names %r became %r: not unique, result does not load' % (orig, pn))
            rec(c, s['secs'] if s else [])
    rec(root, doc['secs'])
    return found


# ---------------------------------------------------------------------------------------------
# case enumeration
# ---------------------------------------------------------------------------------------------

CONFLICT = {
    'unit': ['mV', 'kV', 'uV'],
    'uncertainty': ['0.5', '0.25', '2'],
    'type': ['int', 'float', 'string'],
    'filename': ['raw1.dat', 'raw2.dat', 'raw3.dat'],
    'definition': ['def one', 'def two', 'def three'],
    'reference': ['ref one', 'ref two', 'ref three'],
}
PATTERNS = ('first', 'later', 'agree', 'conflict', 'later-conflict')


def attr_column(tag, pattern, n, c=None):
    """Per value element the text of attribute `tag` (or None) for a placement pattern."""
    c = c or CONFLICT[tag]
    if pattern == 'first':
        return [c[0]] + [None] * (n - 1)
    if pattern == 'later':
        return [None] * (n - 1) + [c[0]]
    if pattern == 'agree':
        return [c[0]] * n
    if pattern == 'conflict':
        return [c[i % 3] for i in range(n)]
    if pattern == 'later-conflict':        # nothing on the first, differing ones on the later values
        return [None] + [c[(i + 1) % 3] for i in range(n - 1)]
    raise ValueError(pattern)


def one_prop_doc(prop, extra_props=()):
    return D([S('s', [prop] + list(extra_props))])


def gen_attr_cases(tier, rnd):
    """group A: placement of the six value attributes."""
    nums = ['1', '2', '3']
    for n in (1, 2, 3):
        pats = ('first',) if n == 1 else PATTERNS
        if n == 2:
            pats = ('first', 'later', 'agree', 'conflict')
        for tag in VAL_ATTRS:
            for pat in pats:
                col = attr_column(tag, pat, n)
                vals = [V(nums[i], *([(tag, col[i])] if col[i] is not None else [])) for i in range(n)]
                yield ('attr', tag, pat, n), one_prop_doc(P('p', vals))
        for pat in pats:                       # all six attributes with the same placement
            cols = {t: attr_column(t, pat, n) for t in VAL_ATTRS}
            vals = [V(nums[i], *[(t, cols[t][i]) for t in VAL_ATTRS if cols[t][i] is not None]) for i in range(n)]
            yield ('attr', 'all', pat, n), one_prop_doc(P('p', vals))
    # attribute carrying value elements without text (as in the repository's own 1.0 fixtures)
    for tag in VAL_ATTRS:
        yield ('attr-empty-value', tag, 'first'), one_prop_doc(
            P('p', [V(None, (tag, CONFLICT[tag][0])), V('1'), V('2')]))
        yield ('attr-empty-value', tag, 'only'), one_prop_doc(P('p', [V(None, (tag, CONFLICT[tag][0]))]))
    # value level definition against the Property's own definition
    for pat in ('first', 'agree', 'conflict'):
        col = attr_column('definition', pat, 2)
        vals = [V(nums[i], *([('definition', col[i])] if col[i] is not None else [])) for i in range(2)]
        for own in ('def one', 'own def'):
            yield ('attr-own-definition', pat, own), one_prop_doc(P('p', vals, [('definition', own)]))
    # 'dtype' spelling of the value data type and 'binary'
    for tag in ('type', 'dtype'):
        for first, later in (('binary', None), ('binary', 'binary'), ('binary', 'string'), ('string', 'binary'),
                             (None, 'binary')):
            vals = [V('x', *([(tag, first)] if first else [])), V('y', *([(tag, later)] if later else []))]
            yield ('binary', tag, first, later), one_prop_doc(P('p', vals))
        yield ('binary', tag, 'single'), one_prop_doc(P('p', [V('x', (tag, 'binary'))]))
    # random mixtures of placements
    k = 40 if tier == 'quick' else 2000
    for _ in range(k):
        n = rnd.choice((2, 3))
        pats = {t: rnd.choice(PATTERNS + ('none',)) for t in VAL_ATTRS}
        cols = {t: (attr_column(t, pats[t], n) if pats[t] != 'none' else [None] * n) for t in VAL_ATTRS}
        order = list(VAL_ATTRS)
        rnd.shuffle(order)
        vals = [V(nums[i], *[(t, cols[t][i]) for t in order if cols[t][i] is not None]) for i in range(n)]
        yield ('attr-mix', tuple(sorted(pats.items())), n), one_prop_doc(P('p', vals))


TEXTS_QUICK = ['x', 'a,b', '[1]', 'a"b']
TEXTS_ALL = ['x', 'a,b', '[1]', '[a,b]', 'a"b', '"q', "it's", 'a;b', '(1;2)', 'a, b', ']', '[']


def gen_value_cases(tier, rnd):
    """group B: what the value elements contain."""
    for t in TEXTS_ALL:
        for typ in (None, 'string'):
            yield ('values', 1, (t,), typ), one_prop_doc(P('p', [V(t, *([('type', typ)] if typ else []))]))
    for a, b in itertools.product(TEXTS_ALL, repeat=2):
        yield ('values', 2, (a, b)), one_prop_doc(P('p', [V(a, ('type', 'string')), V(b, ('type', 'string'))]))
    pool = TEXTS_QUICK if tier == 'quick' else TEXTS_ALL[:8]
    for tx in itertools.product(pool, repeat=3):
        yield ('values', 3, tx), one_prop_doc(P('p', [V(t) for t in tx]))
    # no values at all / only empty value elements / empty ones between real ones
    yield ('values', 0), one_prop_doc(P('p', []))
    yield ('values', 'empty-only'), one_prop_doc(P('p', [V(None), V(None)]))
    yield ('values', 'empty-between'), one_prop_doc(P('p', [V('1'), V(None), V('2')]))
    for typ, texts in (('int', ['1', '-2', '30']), ('float', ['1.5', '2', '-0.25']), ('text', ['a', 'b']),
                       ('boolean', ['true', 'false'])):
        if typ == 'boolean':
            continue        # 1.1 converts boolean spellings itself; not part of this statement
        for n in range(1, len(texts) + 1):
            yield ('values-typed', typ, n), one_prop_doc(P('p', [V(t, ('type', typ)) for t in texts[:n]]))


NAME_ALPHABET_QUICK = ['p', 'p-2', 'q']
NAME_ALPHABET_ALL = ['p', 'p-2', 'q', 'p-3']


def gen_name_cases(tier, rnd):
    """group C: duplicate sibling names at every level."""
    alpha = NAME_ALPHABET_QUICK if tier == 'quick' else NAME_ALPHABET_ALL
    maxlen = 3 if tier == 'quick' else 4
    for n in range(1, maxlen + 1):
        for names in itertools.product(alpha, repeat=n):
            yield ('names', 'props', names), D([S('s', [P(x, [V('1')]) for x in names])])
            yield ('names', 'top-sections', names), D([S(x) for x in names])
            yield ('names', 'sub-sections', names), D([S('s', [], [S(x) for x in names]), S('other')])
            if n <= 3:
                yield ('names', 'all-levels', names), D(
                    [S(x, [P(y, [V('1')]) for y in names], [S(y, [P(z) for z in names]) for y in names])
                     for x in names])
    # the same names in different parents never clash
    yield ('names', 'cousins'), D([S('a', [P('p')], [S('c', [P('p')])]), S('b', [P('p')], [S('c', [P('p')])])])


def gen_id_cases(tier, rnd):
    """group D: present / absent / malformed ids."""
    for spec in ID_SPECS:
        yield ('ids', 'document', spec), D([S('s', [P('p', [V('1')])])], id=spec)
        yield ('ids', 'section', spec), D([S('s', [P('p', [V('1')])], id=spec)])
        yield ('ids', 'subsection', spec), D([S('s', [], [S('c', id=spec)])])
        yield ('ids', 'property', spec), D([S('s', [P('p', [V('1')], id=spec)])])
        yield ('ids', 'everywhere', spec), D([S('s', [P('p', [V('1')], id=spec)], id=spec)], id=spec)
    for a, b, c in itertools.product(ID_SPECS[:4], repeat=3):
        yield ('ids', 'mixed', a, b, c), D([S('s', [P('p', [V('1')], id=c)], id=b)], id=a)


UNSUPPORTED = ['mapping', 'synonym', 'foo']


def gen_unsupported_cases(tier, rnd):
    """group E: unsupported elements anywhere, one / two / three in a row, before / between / after the rest."""
    k = itertools.count()

    def extras(n):
        return [(UNSUPPORTED[i], 'dropme%d' % next(k)) for i in range(n)]

    for n in (1, 2, 3):
        for pos in ('first', 'middle', 'last'):
            def place(base, n=n, pos=pos):
                e = extras(n)
                if pos == 'first':
                    return e + base
                if pos == 'last':
                    return base + e
                return base[:1] + e + base[1:]
            yield ('unsupported', 'document', n, pos), D(
                [S('s')], attrs=place([('author', 'me'), ('version', 'v1')]))
            yield ('unsupported', 'section', n, pos), D(
                [S('s', [P('p', [V('1')])], attrs=place([('definition', 'sd'), ('reference', 'sr')]))])
            yield ('unsupported', 'subsection', n, pos), D(
                [S('s', [], [S('c', attrs=place([('definition', 'sd'), ('reference', 'sr')]))])])
            yield ('unsupported', 'property', n, pos), one_prop_doc(
                P('p', [V('1')], place([('definition', 'pd'), ('dependency', 'dep')])))
            yield ('unsupported', 'first-value', n, pos), one_prop_doc(
                P('p', [V('1', *place([('unit', 'mV'), ('type', 'int')])), V('2')]))
            yield ('unsupported', 'later-value', n, pos), one_prop_doc(
                P('p', [V('1'), V('2', *place([('unit', 'mV'), ('type', 'int')]))]))
            for name_last in (True,):
                yield ('unsupported', 'property-name-last', n, pos), one_prop_doc(
                    P('p', [V('1')], place([('definition', 'pd')]), name_last=True))
                yield ('unsupported', 'section-name-last', n, pos), D(
                    [S('s', [P('p', [V('1')])], attrs=place([('definition', 'sd')]), name_last=True)])
    yield ('unsupported', 'encoder-checksum'), one_prop_doc(
        P('p', [V('1', ('encoder', 'dropenc'), ('checksum', 'dropsum'), ('type', 'int'))]))
    yield ('unsupported', 'everywhere'), D(
        [S('s', [P('p', [V('1', *extras(2))], extras(2))], [S('c', attrs=extras(2))], attrs=extras(2))],
        attrs=[('author', 'me')] + extras(2))
    # XML comments (other printers ignore them)
    for where in ('document', 'section', 'property', 'value'):
        c = [('#comment', ' note ')]
        yield ('comment', where), D(
            [S('s', [P('p', [V('1', *(c if where == 'value' else []))], c if where == 'property' else [])],
               attrs=c if where == 'section' else [])],
            attrs=[('author', 'me')] + (c if where == 'document' else []))


def gen_misc_cases(tier, rnd):
    """groups F/G: dependency spelling, unnamed Properties, Sections without name, element order."""
    for tag in ('dependency_value', 'dependencyvalue'):
        yield ('dependency', tag), one_prop_doc(P('p', [V('1')], [('dependency', 'dep'), (tag, 'depval')]))
        yield ('dependency', tag, 'alone'), one_prop_doc(P('p', [V('1')], [(tag, 'depval')]))
    k = itertools.count()

    def anon():
        return P(None, [V('9')], [('definition', 'anonprop%d' % next(k))])
    yield ('unnamed-property', 'alone'), D([S('s', [anon()])])
    yield ('unnamed-property', 'first'), D([S('s', [anon(), P('p', [V('1')]), P('q', [V('2')])])])
    yield ('unnamed-property', 'middle'), D([S('s', [P('p', [V('1')]), anon(), P('q', [V('2')])])])
    yield ('unnamed-property', 'last'), D([S('s', [P('p', [V('1')]), P('q', [V('2')]), anon()])])
    yield ('unnamed-property', 'two-in-a-row'), D([S('s', [anon(), anon(), P('p', [V('1')])])])
    yield ('unnamed-property', 'in-subsection'), D([S('s', [], [S('c', [anon(), P('p', [V('1')])])])])
    yield ('unnamed-property', 'between-clashing'), D([S('s', [P('p', [V('1')]), anon(), P('p', [V('2')])])])
    yield ('unnamed-section', 'top'), D([S(None, [P('p', [V('1')])])])
    yield ('unnamed-section', 'sub'), D([S('s', [], [S(None)])])
    yield ('order', 'name-last'), D([S('s', [P('p', [V('1', ('unit', 'mV'))], [('definition', 'pd')], name_last=True)],
                                       attrs=[('definition', 'sd')], name_last=True)])
    yield ('empty', 'document'), D([])
    yield ('empty', 'section'), D([S('s')])
    yield ('doc-attrs', 'none'), D([S('s')], attrs=[])


# value contents per data type family: native scalars of every kind next to their string spellings
FAMILIES = [
    ('int', [N(0), N(1), N(-3), N(10 ** 12), '0', '7'], ('int', 'float', 'string', None)),
    ('float', [N(0.0), N(1.5), N(-0.25), N(1e-9), N(0), N(2), '0.0', '2.5'], ('float', 'string', None)),
    ('boolean', [N(True), N(False), 'true', 'False'], ('boolean', 'string', None)),
    ('date', [ND('2008-07-07'), '2001-02-03'], ('date', None)),
    ('datetime', [NDT('2008-07-07 12:30:01'), '2001-02-03 04:05:06'], ('datetime', None)),
]
# contents that are no scalar value: unset (null), empty, lists
NON_VALUES = [NULL, '', N([1, 2]), N([]), N(['a', 'b']), N([[1], [2]]), N([None]), N([0])]
# native contents of the value attributes, as triples for the placement patterns
NATIVE_TRIPLES = {
    'unit': [(N(0), N(5), 'x'), (N(False), N(True), 'y'), (N(0.0), N(2.5), N(-1))],
    'uncertainty': [(N(0), N(0.5), N(2)), (N(0.0), N(1), '0.25'), ('0', N(0), N(0.0)), (N(11), N(12), N(13))],
    'filename': [(N(0), N(5), 'x'), (N(False), N(2.5), N(2008))],
    'definition': [(N(0), N(5), 'x'), (N(False), N(0.0), N(True))],
    'reference': [(N(0), N(1234), 'x'), (N(0.0), N(False), N(-7))],
}
NATIVE_SCALARS = [N(0), N(5), N(-3), N(0.0), N(2.5), N(False), N(True), NULL, '']


def gen_native_cases(tier, rnd):
    """group N: native JSON / YAML scalars in every position that carries content."""
    thorough = tier != 'quick'
    # N1 value contents: single, all pairs (all triples in the thorough tier), the data type given or not
    for fam, pool, dtypes in FAMILIES:
        for typ in dtypes:
            tattr = [('type', typ)] if typ else []
            for e in pool:
                yield ('native-value', fam, typ, 1, kind(e), spell(e)), one_prop_doc(P('p', [V(e, *tattr)]))
            for a, b in itertools.product(pool, repeat=2):
                yield ('native-value', fam, typ, 2, kind(a), spell(a), kind(b), spell(b)), one_prop_doc(
                    P('p', [V(a, *tattr), V(b)]))
            if typ:
                # the data type on every value element, under the dict formats' own 'dtype' spelling too
                for a, b in itertools.product(pool[:4], repeat=2):
                    yield ('native-value-typed-all', fam, typ, kind(a), spell(a), kind(b), spell(b)), one_prop_doc(
                        P('p', [V(a, ('dtype', typ), ('unit', 'mV')), V(b, ('dtype', typ), ('unit', 'mV'))]))
            if thorough and fam in ('int', 'float', 'boolean'):
                for tx in itertools.product(pool, repeat=3):
                    yield ('native-value', fam, typ, 3) + tuple(spell(t) + kind(t) for t in tx), one_prop_doc(
                        P('p', [V(tx[0], *tattr), V(tx[1]), V(tx[2])]))
        # a falsy one several times between others (value order)
        for e in pool:
            typ = dtypes[0]
            others = [x for x in pool if isinstance(x, str)]
            yield ('native-value-repeated', fam, kind(e), spell(e)), one_prop_doc(
                P('p', [V(e, ('type', typ)), V(others[0]), V(e), V(others[-1]), V(e)]))
    # N2 null / empty / list as value content, alone and among real values
    for x in NON_VALUES:
        lab = (kind(x), spell(x))
        yield ('non-value', 'alone') + lab, one_prop_doc(P('p', [V(x)]))
        yield ('non-value', 'first') + lab, one_prop_doc(P('p', [V(x), V('a')]))
        yield ('non-value', 'last') + lab, one_prop_doc(P('p', [V('a'), V(x)]))
        yield ('non-value', 'middle') + lab, one_prop_doc(P('p', [V('a'), V(x), V('b')]))
        yield ('non-value', 'twice') + lab, one_prop_doc(P('p', [V(x), V(x)]))
        typ = [] if kind(x) == 'native-list' else [('type', 'int')]      # (a list is no int)
        yield ('non-value', 'with-attributes') + lab, one_prop_doc(
            P('p', [V(x, ('unit', 'mV'), *typ), V('1'), V(N(2))]))
    # N3 native contents of the value attributes x placement
    nums = ['1', '2', '3']
    for tag, triples in NATIVE_TRIPLES.items():
        for ti, trip in enumerate(triples):
            for n in (1, 2, 3):
                pats = ('first',) if n == 1 else (('first', 'later', 'agree', 'conflict') if n == 2 else PATTERNS)
                for pat in pats:
                    col = attr_column(tag, pat, n, trip)
                    vals = [V(nums[i], *([(tag, col[i])] if col[i] is not None else [])) for i in range(n)]
                    yield ('native-attr', tag, ti, pat, n), one_prop_doc(P('p', vals))
    # all five with native contents on one value element / spread over the value elements
    for ti in range(2):
        yield ('native-attr', 'all', ti, 'first'), one_prop_doc(P('p', [
            V('1', *[(t, NATIVE_TRIPLES[t][ti][0]) for t in NATIVE_TRIPLES]), V('2')]))
        yield ('native-attr', 'all', ti, 'spread'), one_prop_doc(P('p', [
            V(str(i), (t, NATIVE_TRIPLES[t][ti][0])) for i, t in enumerate(NATIVE_TRIPLES)]))
    # N4 unset (null) and empty attribute entries around a real one
    for tag in VAL_ATTRS:
        real = CONFLICT[tag][0]
        for ci, col in enumerate(([NULL, real], ['', real], [real, NULL], [real, ''], [NULL], [''],
                                  [NULL, NULL, real], [NULL, '', real], [None, NULL, real])):
            vals = [V(nums[i], *([(tag, col[i])] if col[i] is not None else [])) for i in range(len(col))]
            yield ('unset-attr', tag, ci), one_prop_doc(P('p', vals))
    # N5 unsupported elements of a value element with native contents (have to be logged)
    for tag in ('checksum', 'encoder', 'foo'):
        for x in NATIVE_SCALARS:
            yield ('native-unsupported', 'first-value', tag, kind(x)), one_prop_doc(
                P('p', [V('1', (tag, x), ('unit', 'mV')), V('2')]))
            yield ('native-unsupported', 'later-value', tag, kind(x)), one_prop_doc(
                P('p', [V('1'), V('2', ('unit', 'mV'), (tag, x))]))
    # N6 Property level entries
    for tag in ('definition', 'dependency', 'dependency_value', 'dependencyvalue', 'mapping', 'foo'):
        for x in NATIVE_SCALARS:
            attrs = [(tag, x)]
            if tag.startswith('dependency') and tag != 'dependency':
                attrs.insert(0, ('dependency', 'dep'))
            yield ('native-property-entry', tag, kind(x)), one_prop_doc(P('p', [V('1')], attrs))
    for x in (NULL, ''):
        for pat in ('first', 'agree', 'conflict'):
            col = attr_column('definition', pat, 2)
            vals = [V(nums[i], *([('definition', col[i])] if col[i] is not None else [])) for i in range(2)]
            yield ('unset-own-definition', kind(x), pat), one_prop_doc(P('p', vals, [('definition', x)]))
    # N7 Section level entries (top level and sub Section)
    for tag in ('definition', 'reference', 'mapping', 'foo'):
        for x in NATIVE_SCALARS:
            yield ('native-section-entry', 'top', tag, kind(x)), D([S('s', [P('p', [V('1')])], attrs=[(tag, x)])])
            yield ('native-section-entry', 'sub', tag, kind(x)), D([S('s', [], [S('c', attrs=[(tag, x)])])])
    # N8 Document level entries
    for tag, pool in (('author', NATIVE_SCALARS), ('version', [N(1), N(1.0), N(1.13), N(0), NULL, '']),
                      ('date', [ND('2008-07-07'), NULL, '']),
                      ('foo', NATIVE_SCALARS)):
        for x in pool:
            attrs = [a for a in (('author', 'me'), ('date', '2008-07-07'), ('version', 'v1.13')) if a[0] != tag]
            yield ('native-document-entry', tag, kind(x), spell(x)), D([S('s')], attrs=attrs + [(tag, x)])
    # N9 ids
    for x in (NULL, N(0), N(5), N(False), N(2.5)):
        yield ('native-id', 'document', kind(x)), D([S('s', [P('p', [V('1')])])], id=x)
        yield ('native-id', 'section', kind(x)), D([S('s', [P('p', [V('1')])], id=x)])
        yield ('native-id', 'subsection', kind(x)), D([S('s', [], [S('c', id=x)])])
        yield ('native-id', 'property', kind(x)), D([S('s', [P('p', [V('1')], id=x)])])


SPECIAL_TEXTS = ['\u00e9t\u00e9', '\u00b5V', 'a<b&c>d', '\u65e5\u672c', 'tab\there', "q'\"q"]


def gen_text_cases(tier, rnd):
    """group T: non ASCII and markup characters in every text position (sources are UTF-8)."""
    for t in SPECIAL_TEXTS:
        yield ('text', 'value', t), one_prop_doc(P('p', [V(t), V('x')]))
        yield ('text', 'value-attributes', t), one_prop_doc(
            P('p', [V('1', ('unit', t), ('filename', t), ('definition', t), ('reference', t))]))
        yield ('text', 'property-entries', t), one_prop_doc(
            P('p', [V('1')], [('definition', t), ('dependency', t), ('dependency_value', t)]))
        yield ('text', 'section-entries', t), D([S('s', [P('p', [V('1')])], attrs=[('definition', t), ('reference', t)])])
        yield ('text', 'dropped', t), one_prop_doc(P('p', [V('1', ('checksum', t + 'v'))], [('mapping', t + 'p')]))
        if '<' not in t and '\t' not in t:
            yield ('text', 'names', t), D([S(t, [P(t, [V('1')]), P(t, [V('2')])]), S(t)])


def gen_tree_cases(tier, rnd):
    """group H: all forest shapes, random filling from every feature above."""
    per_shape = 6 if tier == 'quick' else 100
    max_secs = 3 if tier == 'quick' else 4
    k = itertools.count()

    def rnd_val(numeric):
        text = rnd.choice(['1', '2', '3']) if numeric else rnd.choice(TEXTS_ALL)
        if rnd.random() < 0.3:        # a native scalar (of a kind every data type on offer can hold)
            text = rnd.choice([N(0), N(0), N(1), N(-3)] if numeric else [N(False), N(True), N(0), N(0.0), N(1.5), ''])
        if rnd.random() < 0.03:
            text = NULL
        attrs = []
        for t in VAL_ATTRS:
            if rnd.random() < 0.25:
                x = rnd.choice(CONFLICT[t])
                if t == 'type' and not numeric:
                    x = rnd.choice(['string', 'text', 'binary'])
                if t != 'type' and rnd.random() < 0.3:
                    x = rnd.choice([N(0), N(0.0), N(0.5), N(2)] if t == 'uncertainty' else
                                   [N(0), N(0.0), N(False), N(7), N(True)])
                if rnd.random() < 0.03:
                    x = rnd.choice([NULL, ''])
                attrs.append((t, x))
        if rnd.random() < 0.1:
            attrs.append((rnd.choice(['encoder', 'checksum']),
                          rnd.choice([N(0), N(False), N(0.0)]) if rnd.random() < 0.3 else 'dropval%d' % next(k)))
        return V(text, *attrs)

    def rnd_prop():
        numeric = rnd.random() < 0.5
        attrs = []
        if rnd.random() < 0.3:
            attrs.append(('definition', rnd.choice(CONFLICT['definition'])))
        if rnd.random() < 0.2:
            attrs += [('dependency', 'dep'), (rnd.choice(['dependency_value', 'dependencyvalue']), 'depval')]
        if rnd.random() < 0.2:
            attrs.append((rnd.choice(UNSUPPORTED), 'dropprop%d' % next(k)))
        if rnd.random() < 0.03:       # native entries of the Property itself
            attrs = [(t, rnd.choice([N(0), N(False), N(2.5), NULL])) for t, _ in attrs]
        name = rnd.choice(['p', 'p', 'q', 'p-2'])
        if rnd.random() < 0.07:
            name = None
            attrs = [('definition', 'anonprop%d' % next(k))]
        return P(name, [rnd_val(numeric) for _ in range(rnd.choice((0, 1, 1, 2, 3)))], attrs,
                 id=rnd.choice(ID_SPECS[:5]), name_last=rnd.random() < 0.2)

    def build(forest):
        out = []
        for sub in forest:
            attrs = []
            if rnd.random() < 0.3:
                attrs.append(('definition', 'sdef'))
            if rnd.random() < 0.2:
                attrs.append(('reference', 'sref'))
            if rnd.random() < 0.2:
                attrs.append((rnd.choice(UNSUPPORTED), 'dropsec%d' % next(k)))
            if rnd.random() < 0.03:
                attrs = [(t, rnd.choice([N(0), N(False), N(2.5), NULL])) for t, _ in attrs]
            out.append(S(rnd.choice(['a', 'a', 'b', 'a-2']), [rnd_prop() for _ in range(rnd.choice((0, 1, 2, 3)))],
                         build(sub), attrs, id=rnd.choice(ID_SPECS[:5]), type_=rnd.choice(['t', 'setup/daq'])))
        return out

    for shape in h.tree_shapes(max_secs):
        for i in range(per_shape):
            attrs = [('author', 'me'), ('date', '2008-07-07')]
            if rnd.random() < 0.3:
                attrs.insert(rnd.choice((0, 1, 2)), ('foo', 'dropdoc%d' % next(k)))
            yield ('tree', shape, i), D(build(shape), attrs=attrs, id=rnd.choice(ID_SPECS[:5]))


def all_cases(tier, seed):
    rnd = random.Random(seed)
    for gen in (gen_attr_cases, gen_value_cases, gen_name_cases, gen_id_cases, gen_unsupported_cases,
                gen_misc_cases, gen_native_cases, gen_text_cases, gen_tree_cases):
        for key, doc in gen(tier, rnd):
            yield key, doc


# ---------------------------------------------------------------------------------------------
# run
# ---------------------------------------------------------------------------------------------

DECL_GROUPS = ('empty', 'order', 'values-typed', 'dependency')
# groups whose sources are also given in other layouts in the quick tier (every 7th document of the other groups;
# all documents in the thorough tier): JSON / YAML with sorted keys and no empty lists, with reverse sorted keys and
# all empty lists written out; XML with one element per line
LAYOUTS = {'stringio-keys-sorted-empty-lists-omitted': {'order': 'sorted', 'empties': 'omitted'},
           'stringio-keys-reversed-empty-lists-explicit': {'order': 'reversed', 'empties': 'explicit'}}
ORDER_GROUPS = ('attr', 'attr-own-definition', 'binary', 'unsupported', 'dependency', 'unnamed-property', 'order',
                'native-attr', 'unset-attr', 'unset-own-definition', 'native-unsupported')


def _sha(path):
    with open(path, 'rb') as f:
        return hashlib.sha256(f.read()).hexdigest()


def _file_meta(path):
    """What the file system tells about a source file beside its content."""
    st = os.stat(path)
    return [oct(st.st_mode), st.st_mtime_ns, sorted(os.listdir(os.path.dirname(os.path.abspath(path))))]


def _convert(src, fmt):
    vc = VersionConverter(src)
    out = vc.convert(fmt)
    return out, list(vc.conversion_log)


def run_convert(tier, seed):
    col = h.Collector(
        'C15.convert',
        rule='one case = (generated 1.0 document, source format XML/JSON/YAML, source kind file/StringIO (+ StringIO with XML declaration for 4 groups; '
             '+ other layouts of the same source - JSON/YAML keys sorted and empty lists omitted / keys reverse sorted and empty lists '
             'written out, XML one element per line - for 11 groups and every 7th other document (quick) / all documents (thorough))); '
             'each document is also compared across its three source formats (formats-agree); the source is compared '
             'before / after: StringIO content, read position, closed state; file content, mode, modification time, directory; '
             'documents: exhaustive placements of the six value attributes over 1..3 value elements, '
             'exhaustive value texts (pool of 12) for 1..2 and (pool of 4/8) for 3 value elements, exhaustive sibling '
             'name sequences (alphabet 3/4, length <= 3/4) for properties / top sections / sub sections / all levels, '
             'id kinds x entity, 1..3 unsupported elements x position x level, XML comments, dependency spelling, '
             'unnamed properties / sections; native JSON/YAML scalars (0, 1, -3, 10**12, 0.0, 1.5, -0.25, 1e-9, true, false, '
             'null, empty string, lists, YAML date / timestamp) next to their string spellings: as value content (singles, all '
             'pairs, all triples in the thorough tier, per data type family x data type given or not, repeated falsy ones), as '
             'content of each value attribute x placement pattern x 1..3 value elements, null / empty entries before and after '
             'a real one, in unsupported value entries, in every Property / Section / Document level entry, as id; non ASCII and '
             'markup characters in every text position; all forest shapes <= 3/4 sections with random filling (strings and '
             'native scalars); class key = '
             '(generator key, format, source kind)', exhaustive=False)
    ck = Checker(col)
    shutil.rmtree(WORK, ignore_errors=True)
    os.makedirs(WORK)
    try:
        for idx, (key, doc) in enumerate(all_cases(tier, seed)):
            nameless = 'section-without-name' in doc_features(doc, 'XML', 'file')
            observed = {}
            for fmt in ('XML', 'JSON', 'YAML'):
                printer, ext = PRINTERS[fmt]
                text = printer(doc)
                path = os.path.join(WORK, 'src' + ext)
                with open(path, 'w', encoding='utf-8') as f:
                    f.write(text)
                kinds = ['file', 'stringio']
                if fmt == 'XML' and key[0] in DECL_GROUPS:
                    kinds += ['stringio-decl-encoding', 'stringio-decl-plain']
                if key[0] in ORDER_GROUPS or tier != 'quick' or idx % 7 == 0:
                    kinds += ['stringio-pretty'] if fmt == 'XML' else list(LAYOUTS)
                for src in kinds:
                    col.case(cls_key=(key, fmt, src), sample='%r %s %s' % (key, fmt, src))
                    if src == 'file':
                        wit = {'doc': doc, 'format': fmt, 'source': src, 'text': text if len(text) < 1500 else None}
                        before, meta = _sha(path), _file_meta(path)
                        st, res = h.call(_convert, path, fmt)
                        if not os.path.exists(path) or _sha(path) != before:
                            ck.fail('source-unchanged', 'file', wit, 'source file changed by the conversion')
                            with open(path, 'w', encoding='utf-8') as f:
                                f.write(text)
                        elif _file_meta(path) != meta:
                            ck.fail('source-unchanged', 'file-mode-or-time', wit, 'source file (mode, mtime_ns, directory) '
                                    '%r became %r' % (meta, _file_meta(path)))
                    else:
                        stext = text
                        if fmt == 'XML':
                            # a StringIO holds decoded text: by default without XML declaration (as the
                            # repository's own tests do); the declared variants are separate, labelled cases
                            stext = to_xml(doc, decl={'stringio': '', 'stringio-decl-encoding': XML_DECL,
                                                      'stringio-decl-plain': '<?xml version="1.0"?>\n',
                                                      'stringio-pretty': ''}[src])
                            if src == 'stringio-pretty':
                                stext = to_xml_pretty(doc)
                        elif src in LAYOUTS:
                            # the same mappings with their keys in another order / other spelling of empty lists
                            stext = printer(doc, **LAYOUTS[src])
                        wit = {'doc': doc, 'format': fmt, 'source': src, 'text': stext if len(stext) < 1500 else None}
                        sio = io.StringIO(stext)
                        st, res = h.call(_convert, sio, fmt)
                        if sio.closed or sio.getvalue() != stext:
                            ck.fail('source-unchanged', 'stringio', wit, 'source StringIO changed by the conversion')
                        elif sio.tell() != 0:
                            ck.fail('source-unchanged', 'stringio-position', wit, 'read position of the source StringIO '
                                    'moved from 0 to %d (of %d) by the conversion' % (sio.tell(), len(stext)))
                    if nameless:
                        # a Section without name is taken to be outside "well-formed 1.0": refusing it is allowed,
                        # only "the source is never modified" (above) is checked
                        continue
                    if st == 'exc':
                        feats = doc_features(doc, fmt, 'stringio' if src.startswith('stringio') else src)
                        if src == 'stringio-decl-encoding':
                            feats.insert(0, 'stringio-xml-source-with-encoding-declaration')
                        pick = [f for f in feats if f.startswith(('native-', 'stringio-', 'xml-comment'))]
                        ck.fail('converts', pick[0] if pick else 'unclassified:' + type(res).__name__, wit,
                                'convert(%r) raised %s: %s' % (fmt, type(res).__name__, res))
                        continue
                    out, log = res
                    if not isinstance(out, str) or '<odML' not in out:
                        ck.fail('converts', 'no-output', wit, 'convert returned %r' % (out,))
                        continue
                    obs = check_case(ck, doc, fmt, src, out, log, wit)
                    if src == 'file':
                        observed[fmt] = obs
            if not nameless:
                check_formats_agree(ck, doc, observed, {'doc': doc, 'source': 'file'})
    finally:
        shutil.rmtree(WORK, ignore_errors=True)
    res = col.result()
    res['failure_classes'] = ck.summary()
    return res


def run_write(tier, seed):
    col = h.Collector(
        'C15.write_to_file',
        rule='one case = (document from a fixed list of 12 / every 25th generated document, source format, '
             'target name with .xml / .odml / no extension); class key = the same', exhaustive=False)
    ck = Checker(col)
    work = WORK + '_w'
    shutil.rmtree(work, ignore_errors=True)
    os.makedirs(work)
    step = 60 if tier == 'quick' else 25
    try:
        for i, (key, doc) in enumerate(all_cases(tier, seed)):
            if i % step:
                continue
            if doc_features(doc, 'XML', 'file') or doc_features(doc, 'JSON', 'file'):
                continue        # documents the converter cannot handle are run_convert's business
            for fmt in ('XML', 'JSON', 'YAML'):
                printer, ext = PRINTERS[fmt]
                text = printer(doc)
                for target in ('o.xml', 'o.odml', 'o', 'o.txt'):
                    case = os.path.join(work, 'case')
                    shutil.rmtree(case, ignore_errors=True)
                    os.makedirs(os.path.join(case, 'out'))
                    src = os.path.join(case, 'in' + ext)
                    with open(src, 'w', encoding='utf-8') as f:
                        f.write(text)
                    before, meta = _sha(src), _file_meta(src)
                    col.case(cls_key=(key, fmt, target), sample='%r %s %s' % (key, fmt, target))
                    wit = {'doc': doc, 'format': fmt, 'target': target}
                    st, res = h.call(lambda: VersionConverter(src).write_to_file(os.path.join(case, 'out', target), fmt))
                    if st == 'exc':
                        ck.fail('writes', 'unclassified:' + type(res).__name__, wit, 'write_to_file raised %r' % res)
                        continue
                    want = target if target.endswith(('.xml', '.odml')) else target + '.xml'
                    got = sorted(os.listdir(os.path.join(case, 'out')))
                    if got != [want] or sorted(os.listdir(case)) != ['in' + ext, 'out']:
                        ck.fail('writes-only-target', 'target-' + (os.path.splitext(target)[1].strip('.') or 'none'), wit,
                                'files after write_to_file(%r): %r, beside the source: %r'
                                % (target, got, sorted(os.listdir(case))))
                        continue
                    if _sha(src) != before:
                        ck.fail('source-unchanged', 'file', wit, 'source changed')
                    elif _file_meta(src) != meta:
                        ck.fail('source-unchanged', 'file-mode-or-time', wit, 'source file (mode, mtime_ns, directory) '
                                '%r became %r' % (meta, _file_meta(src)))
                    st, res = h.call(lambda: XMLReader(ignore_errors=False, show_warnings=False).from_file(
                        os.path.join(case, 'out', want)))
                    if st == 'exc':
                        ck.fail('written-file-loads', 'unclassified:' + type(res).__name__, wit,
                                'written file does not load: %r' % res)
    finally:
        shutil.rmtree(work, ignore_errors=True)
    res = col.result()
    res['failure_classes'] = ck.summary()
    return res


# ---------------------------------------------------------------------------------------------
# source state x usage history
# ---------------------------------------------------------------------------------------------
# The statement quantifies over StringIO and file input and ends with "the source is never modified". A source
# object has more state than its content (a stream has a read position and can be closed, a file has a mode, a
# modification time and neighbours in its directory), and a converter / a source object can be used more than once.
# One case = (document, source format, source kind = how the source object looks when the converter gets it,
# history = what is done with the converter(s) and the source object). After EVERY library call the whole state of
# the source is compared with the state before that call; every result is compared with the model of the document
# the source holds at that moment; results for the same source content are compared with each other.

SRC_KINDS_FULL = ('stringio-at-start', 'stringio-in-the-middle', 'stringio-at-end-after-write',
                  'stringio-at-end-after-read', 'file')
SRC_KINDS_SHORT = ('file-read-only', 'file-relative-path', 'file-name-with-space-and-non-ascii')
# kinds the statement does not name: a refusal is accepted, a result is checked, the source stays untouched anyway
SRC_KINDS_OPTIONAL = ('open-handle-at-start', 'open-handle-in-the-middle', 'file-as-pathlib-path')

# step: ('new', i) another converter over the same source object; ('convert', i) / ('write', i) / ('str', i) /
# ('refused', i) converter i: convert(fmt) / write_to_file(target, fmt) / str() / convert(<a backend that is not the
# source's format>); ('rewrite',) the CALLER replaces the content of the source object by another document;
# ('reposition',) the CALLER moves the read position of the stream
HISTORIES = (
    ('convert', [('convert', 0)]),
    ('convert-twice', [('convert', 0), ('convert', 0)]),
    ('convert-then-write', [('convert', 0), ('write', 0)]),
    ('write-then-convert', [('write', 0), ('convert', 0)]),
    ('write-twice', [('write', 0), ('write', 0)]),
    ('str-then-convert', [('str', 0), ('convert', 0)]),
    ('refused-backend-then-convert', [('refused', 0), ('convert', 0)]),
    ('two-converters', [('new', 1), ('convert', 0), ('convert', 1)]),
    ('two-converters-interleaved', [('convert', 0), ('new', 1), ('write', 1), ('convert', 0), ('convert', 1)]),
    ('convert-rewrite-convert', [('convert', 0), ('rewrite',), ('convert', 0), ('new', 1), ('convert', 1)]),
    ('convert-reposition-convert', [('convert', 0), ('reposition',), ('convert', 0)]),
)
HISTORIES_SHORT = ('convert', 'convert-twice', 'convert-then-write')
HISTORIES_OPTIONAL = ('convert', 'convert-twice')

HIST_RICH = D(
    [S('a',
       [P('p', [V('1', ('unit', 'mV'), ('type', 'int'), ('uncertainty', '0.5'), ('filename', 'raw.dat'),
                  ('checksum', 'histdropsum')), V('2', ('unit', 'mV')), V('3')],
          [('definition', 'pdef'), ('mapping', 'histdropmap')], id=UUID_A),
        P('p', [V('x', ('type', 'binary'))], id='not-a-uuid'),
        P(None, [V('9')], [('definition', 'histanonprop')]),
        P('p-2', [V('µV a,b'), V('[1]')], [('dependency', 'dep'), ('dependency_value', 'depval')])],
       [S('c', [P('q', [V('1.5', ('type', 'float'), ('reference', 'ref one'))])], id=UUID_B.upper()), S('c'),
        S('c-2', attrs=[('foo', 'histdropsec')])],
       attrs=[('definition', 'sdef'), ('reference', 'sref')], id=''),
     S('a', type_='setup/daq'), S('b', [], [S('a')])],
    attrs=[('author', 'me'), ('foo', 'histdropdoc'), ('date', '2008-07-07'), ('version', 'v1.13')], id=UUID_A)
HIST_NATIVE = D([S('s', [P('p', [V(N(0), ('type', 'int'), ('uncertainty', N(0))), V(N(1)), V(N(0))]),
                         P('q', [V(N(False), ('type', 'boolean')), V(N(True))]),
                         P('r', [V(N(0.0), ('unit', N(0))), V(N(2.5))])])])
HIST_MINIMAL = D([S('s', [P('p', [V('1')])])])
HIST_OTHER = D([S('other', [P('z', [V('42', ('unit', 'kg'), ('type', 'int'))], [('synonym', 'histdropother')])],
                  [S('deep')])], attrs=[('author', 'you')])
HIST_FIXED = ((('history-doc', 'rich'), HIST_RICH), (('history-doc', 'native-scalars'), HIST_NATIVE),
              (('history-doc', 'minimal'), HIST_MINIMAL), (('history-doc', 'empty'), D([])))


class Source(object):
    """One source object as a caller hands it to VersionConverter, with everything that can be observed of it."""

    def __init__(self, kind, root, ext):
        self.kind = kind
        self.group = 'stringio' if kind.startswith('stringio') else ('file' if kind.startswith('file') else 'open-handle')
        self.dir = os.path.join(root, 'in')
        name = 'src é 日' + ext if kind == 'file-name-with-space-and-non-ascii' else 'src' + ext
        self.path = os.path.join(self.dir, name)
        self.obj = None
        self.cwd = None
        self.optional = kind in SRC_KINDS_OPTIONAL
        if kind == 'file-as-pathlib-path':
            self.obj = pathlib.Path(self.path)
        elif kind == 'file-relative-path':
            self.cwd = os.getcwd()
            os.chdir(root)
            self.obj = os.path.join('in', name)
        elif self.group == 'file':
            self.obj = self.path

    def put(self, text):
        """The caller fills (or refills) the source with `text` and leaves it in the state the kind names."""
        if self.group == 'stringio':
            if self.kind == 'stringio-at-end-after-write':
                if self.obj is None:
                    self.obj = io.StringIO()
                else:
                    self.obj.seek(0)
                    self.obj.truncate()
                self.obj.write(text)
                return
            if self.obj is None:
                self.obj = io.StringIO(text)
            else:
                self.obj.seek(0)
                self.obj.truncate()
                self.obj.write(text)
                self.obj.seek(0)
            if self.kind == 'stringio-in-the-middle':
                self.obj.seek(len(text) // 2)
            elif self.kind == 'stringio-at-end-after-read':
                self.obj.read()
            return
        if self.group == 'open-handle' and self.obj is not None:
            self.obj.close()
        if os.path.exists(self.path):
            os.chmod(self.path, 0o644)
        with open(self.path, 'w', encoding='utf-8') as f:
            f.write(text)
        if self.kind == 'file-read-only':
            os.chmod(self.path, 0o444)
        if self.group == 'open-handle':
            self.obj = open(self.path, 'r', encoding='utf-8')
            if self.kind == 'open-handle-in-the-middle':
                self.obj.read(len(text) // 2)

    def reposition(self):
        """The caller moves the read position: to the end, from the end to the start."""
        size = len(self.obj.getvalue())
        self.obj.seek(0 if self.obj.tell() == size else size)

    def state(self):
        """Everything observable of the source, component by component."""
        if self.group == 'stringio':
            if self.obj.closed:
                return {'closed': True, 'content': None, 'position': None}
            return {'closed': False, 'content': self.obj.getvalue(), 'position': self.obj.tell()}
        out = {}
        if os.path.isfile(self.path):
            st = os.stat(self.path)
            out.update({'content': _sha(self.path), 'mode': oct(st.st_mode), 'modification-time': st.st_mtime_ns})
        else:
            out.update({'content': None, 'mode': None, 'modification-time': None})
        out['directory'] = sorted(os.listdir(self.dir))
        if self.group == 'open-handle':
            out['closed'] = self.obj.closed
            out['position'] = None if self.obj.closed else self.obj.tell()
            out['handle-mode'] = self.obj.mode
        return out

    def close(self):
        if self.cwd is not None:
            os.chdir(self.cwd)
        if self.group == 'open-handle' and self.obj is not None:
            self.obj.close()


_ID_RE = re.compile(r'<id>[^<]*</id>')
_DECL_RE = re.compile(r'^\s*<\?xml[^>]*\?>\s*')


def _normal_decl(text):
    """The content of a written file without the XML declaration in front."""
    return _DECL_RE.sub('', text, count=1)


def _normal(xml):
    """The converted text without what may differ between two conversions of one document: generated ids, an XML
    declaration in front."""
    return _ID_RE.sub('<id/>', _normal_decl(xml)).strip()


def history_docs(tier, seed):
    """The fixed documents + evenly spaced ones out of the shared enumeration (Sections without name left out)."""
    for item in HIST_FIXED:
        yield item
    pool = [(k, d) for k, d in all_cases(tier, seed) if 'section-without-name' not in doc_features(d, 'XML', 'file')]
    n = 5 if tier == 'quick' else 100
    step = max(1, len(pool) // n)
    for i in range(step // 2, len(pool), step):
        yield pool[i]


def run_history(tier, seed):
    col = h.Collector(
        'C15.history',
        rule='one case = (document: 4 fixed ones - rich (clashing names, valid / malformed / empty ids, dropped elements at '
             'every level, unnamed Property, binary, non ASCII), native JSON/YAML scalars, minimal, empty - + 5 (quick) / 100 '
             '(thorough) evenly spaced documents of the C15.convert enumeration; source format XML/JSON/YAML; source kind: '
             'StringIO with the read position at the start / in the middle / at the end after write() / at the end after '
             'read(), file path; usage history: convert | convert twice | convert, write_to_file | write_to_file, convert | '
             'write_to_file twice | str(), convert | convert(<other backend>, refused), convert | two converters over one '
             'source object | two converters interleaved | convert, caller replaces the source content by another document, '
             'convert (old and new converter) | convert, caller moves the read position, convert (streams only)); + source '
             'kinds read-only file / relative path / file name with space and non ASCII characters x 3 histories; + open '
             'file handle at the start / in the middle, pathlib.Path x 2 histories (a refusal is accepted, a result is '
             'checked). After every library call (constructor included): source content, read position, closed state, file mode, modification time, directory listing as '
             'before the call. Every result is checked against the model of the document the source holds at that moment (a '
             'result for the former content after the caller replaced it: current-content-converted); '
             'results for the same source content carry the same content. class key = (document key, format, kind, history)',
        exhaustive=False)
    ck = Checker(col, per_class=2)
    root = WORK + '_h'
    shutil.rmtree(root, ignore_errors=True)
    os.makedirs(root)
    home = os.getcwd()
    case = os.path.join(root, 'case')
    os.makedirs(os.path.join(case, 'in'))
    os.makedirs(os.path.join(case, 'out'))
    hist = dict(HISTORIES)
    plan = [(k, n) for k in SRC_KINDS_FULL for n, _ in HISTORIES] + \
           [(k, n) for k in SRC_KINDS_SHORT for n in HISTORIES_SHORT] + \
           [(k, n) for k in SRC_KINDS_OPTIONAL for n in HISTORIES_OPTIONAL]
    try:
        for key, doc in history_docs(tier, seed):
            for fmt in ('XML', 'JSON', 'YAML'):
                printer, ext = PRINTERS[fmt]
                texts = {}
                for which, d in (('doc', doc), ('other', HIST_OTHER)):
                    texts[which] = printer(d)
                    texts[which + '-stream'] = to_xml(d, decl='') if fmt == 'XML' else texts[which]
                for kind_, hname in plan:
                    if hname == 'convert-reposition-convert' and not kind_.startswith('stringio'):
                        continue
                    col.case(cls_key=(key, fmt, kind_, hname), sample='%r %s %s %s' % (key, fmt, kind_, hname))
                    for sub in ('in', 'out'):           # (the two directories are reused, their content is not)
                        for name in os.listdir(os.path.join(case, sub)):
                            os.chmod(os.path.join(case, sub, name), 0o644)
                            os.remove(os.path.join(case, sub, name))
                    src = Source(kind_, case, ext)
                    try:
                        _one_history(ck, src, hname, hist[hname], key, doc, fmt, texts, case)
                    finally:
                        src.close()
                        os.chdir(home)
    finally:
        os.chdir(home)
        shutil.rmtree(root, ignore_errors=True)
    res = col.result()
    res['failure_classes'] = ck.summary()
    return res


def _one_history(ck, src, hname, steps, key, doc, fmt, texts, case):
    stream = '-stream' if src.group == 'stringio' else ''
    src.put(texts['doc' + stream])
    current = doc                               # the document the source holds
    convs = {}
    results = []                                # (step label, document, text, loaded snapshot)
    done = []                                   # labels of the library calls made so far
    target = os.path.join(case, 'out', 'o.xml')
    refused = 'JSON' if fmt == 'XML' else 'XML'
    for si, step in enumerate([('new', 0)] + steps, -1):
        op = step[0]
        if op == 'rewrite':
            current = HIST_OTHER
            src.put(texts['other' + stream])
            continue
        if op == 'reposition':
            src.reposition()
            continue
        vc = convs.get(step[1])
        label = '%s by converter %d' % ({'convert': 'convert(%r)' % fmt, 'write': 'write_to_file(.., %r)' % fmt,
                                         'str': 'str()', 'refused': 'convert(%r)' % refused,
                                         'new': 'VersionConverter(source)'}[op], step[1] + 1)
        wit = {'doc': doc if current is doc else {'first': doc, 'then': HIST_OTHER}, 'format': fmt, 'source': src.kind,
               'history': hname, 'steps': [list(s) for s in steps], 'failing-step': si}
        before = src.state()
        if op == 'convert':
            st, res = h.call(vc.convert, fmt)
        elif op == 'write':
            st, res = h.call(vc.write_to_file, target, fmt)
        elif op == 'str':
            st, res = h.call(str, vc)
        elif op == 'new':
            st, res = h.call(VersionConverter, src.obj)
        else:
            st, res = h.call(vc.convert, refused)
        after = src.state()
        when = 'first-call' if not done else 'after-' + '+'.join(done)
        use = 'first-call' if not done else 'later-call'
        for comp in sorted(before):
            if before[comp] != after[comp]:
                shown = (before[comp], after[comp]) if comp != 'content' or src.group != 'stringio' else \
                    (len(before[comp] or ''), None if after[comp] is None else len(after[comp]))
                ck.fail('source-unchanged', '%s-%s:%s-source' % (src.group, comp, fmt.lower()), wit,
                        '%s source in %s, %s, %s: %s of the source was %r before and is %r after the call'
                        % (src.kind, fmt, when, label, comp, shown[0], shown[1]))
        if before != after:
            # the caller restores the source, so that the rest of the history is judged on its own
            if src.group == 'stringio' and not src.obj.closed and after['content'] == before['content']:
                src.obj.seek(before['position'])
            else:
                return
        if op == 'new':
            if st == 'exc':
                if not src.optional:
                    ck.fail('converts', '%s:converter-construction' % src.kind, wit,
                            '%s source in %s: VersionConverter(source) raised %s: %s'
                            % (src.kind, fmt, type(res).__name__, res))
                return
            convs[step[1]] = res
            continue
        done.append(op)
        if op in ('str', 'refused'):
            continue                            # (the statement says nothing about their outcome)
        if st == 'exc':
            if not src.optional:                # no documented kind of input: refusing it is allowed
                ck.fail('converts' if op == 'convert' else 'writes', '%s:%s' % (src.kind, use), wit,
                        '%s source in %s, %s: %s raised %s: %s' % (src.kind, fmt, when, label, type(res).__name__, res))
            continue
        if op == 'convert':
            out = res
            if not isinstance(out, str) or '<odML' not in out:
                ck.fail('converts', 'no-output:%s:%s' % (src.kind, use), wit,
                        '%s, %s: convert returned %r' % (src.kind, when, out))
                continue
        else:
            got = sorted(os.listdir(os.path.join(case, 'out')))
            if got != ['o.xml']:
                ck.fail('writes-only-target', '%s:%s' % (src.kind, use), wit,
                        '%s, %s: files in the target directory after write_to_file(%r): %r' % (src.kind, when, target, got))
                continue
            file_load = h.call(lambda: XMLReader(ignore_errors=False, show_warnings=False).from_file(target))
            with open(target, 'rb') as f:
                raw = f.read()
            try:
                out = _normal_decl(raw.decode('utf-8'))
            except UnicodeDecodeError as exc:
                ck.fail('written-file-loads', 'not-utf-8:%s' % src.kind, wit, 'written file declares UTF-8: %r' % exc)
                continue
            os.remove(target)
        text = _normal(out)
        stale = [plabel for plabel, pdoc, ptext, _ in results if pdoc is not current and ptext == text]
        if stale:
            # (no generated document equals HIST_OTHER, so this is the result for the content the source held before)
            ck.fail('current-content-converted', 'source-content-replaced-between-conversions:%s' % src.group, wit,
                    '%s source in %s: %s, made after the caller replaced the content of the source, is the result of %s '
                    'for the former content' % (src.kind, fmt, label, stale[0]))
            continue
        keep = {}
        check_case(ck, current, fmt, 'stringio' if src.group == 'stringio' else 'file', out, list(vc.conversion_log),
                   wit, keep)
        if 'loaded' not in keep:
            continue                            # (reported by check_case under the clause that explains it)
        if op == 'write' and file_load[0] == 'exc':
            ck.fail('written-file-loads', 'text-loads-file-does-not', wit,
                    '%s, %s: the text of the written file loads, the file does not: %r' % (src.kind, when, file_load[1]))
            continue
        for plabel, pdoc, ptext, ploaded in results:
            if pdoc is not current or ptext == text:
                continue
            d = h.diff(h.snap(ploaded, ids=False, parent=False), h.snap(keep['loaded'], ids=False, parent=False))
            if d:
                ck.fail('repeatable', '%s:%s' % (hname, src.group), wit,
                        '%s: %s and %s of the same source content differ: %s' % (src.kind, plabel, label, d))
                break
        results.append((label, current, text, keep['loaded']))

