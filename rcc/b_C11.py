"""
Bounded stand-in for C11 - copies handed out are equal to, and independent of, the original.

run_clone        clone() of every node of generated documents x all flag combinations
run_export_leaf  export_leaf() of every Section / Property of generated documents
run_independence edits applied to a copy (clone, export_leaf, list returned by `values`, list passed as
                 `values`) never show in the original and vice versa

The oracle reads private fields through rcc.harness.snap (never the library's own __eq__) and compares
object identities directly.

Documents: forest shapes x rich fillings, resolved links, the naming dimension (how the NAME of an object relates
to ids) and the relation dimension (with whom an object SHARES its id / name / attributes / content: Document,
parent, ancestor, sibling, child, descendant, other branch; clones grafted into the document of their original),
each also loaded from files; export_leaf additionally in trees whose root is a detached Section; the
inherited-attribute dimension (which levels - Document, ancestor Section, the Section itself, several with different
or equal URLs - DEFINE the repository the levels below inherit; terminology cache pre-filled: no network, no thread):
every copied object is compared with what the original object itself owns (private field and public getter), the
applicable repository inside the detached copy, and of a clone put into another document, is derived from that;
the value-content dimension (WHAT the copied Properties hold: for every dtype the extreme / unusual legitimate values -
dates and datetimes before the year 1000, first / last date, midnight, huge / negative ints, inf / nan / -0.0 / tiny
floats, empty / blank / multi-line text, tuples with empty elements, ... - entered as text and as native objects, alone
and among ordinary values, in the copied Section and in a Section above it; also as lists handed out by / in to `values`).
"""
from __future__ import annotations

import datetime as dt
import os
import random
import shutil
import tempfile
import uuid

from rcc import harness as h

odml = h.odml
BaseSection, BaseProperty, BaseDocument = h.BaseSection, h.BaseProperty, h.BaseDocument

WORK = os.path.join(h.WORK, 'c11-%d' % os.getpid())     # per process: concurrent runs do not share files


class Col(h.Collector):
    """Keeps at most 3 failures per (check, cls) so that a frequent class cannot hide the others."""
    def __init__(self, *a, **kw):
        super(Col, self).__init__(*a, **kw)
        self.max_failures = 400
        self.per_class = {}

    def fail(self, check, cls, witness, detail):
        key = (check, tuple(sorted(cls.items())))
        self.per_class[key] = self.per_class.get(key, 0) + 1
        if self.per_class[key] <= 3:
            super(Col, self).fail(check, cls, witness, detail)


# ---------------------------------------------------------------------------------------------
# naming dimension: how the name of a Section / Property relates to ids
# ---------------------------------------------------------------------------------------------
# `name` is optional in the constructors and in the setter: an object without a name of its own is named after
# its id.  A name is content (it must survive clone / export_leaf), an id is not (fresh unless keep_id).  The
# generator therefore varies the relation between the two for every object, at every depth.

PLAIN_NAMES = ['a', 'ab', 'b']
ODD_NAMES = ['0', ' a ', 'a/b', 'a:b', 'é ü', 'None', '..', 'A', 'name', '-1']

SPELLINGS = {
    'own-id-upper': lambda i: i.upper(),
    'own-id-hex': lambda i: i.replace('-', ''),
    'own-id-urn': lambda i: 'urn:uuid:' + i,
    'own-id-braces': lambda i: '{%s}' % i,
}

NAME_MODES = ['plain', 'odd',
              # no name of its own: the name falls back to the id
              'unnamed', 'unnamed-oid', 'unnamed-oid-upper', 'empty-name', 'renamed-to-default',
              # was unnamed, got another id afterwards
              'unnamed-then-new-id',
              # the own id in another spelling
              'own-id-upper', 'own-id-hex', 'own-id-urn', 'own-id-braces',
              # a uuid that is nobody's id
              'foreign-uuid', 'foreign-uuid-upper',
              # the id of ANOTHER object of the same document
              'id-of-document', 'id-of-parent', 'id-of-sibling', 'id-of-child', 'id-of-other']

REDUCED_MODES = ['unnamed', 'unnamed-oid', 'renamed-to-default', 'unnamed-then-new-id', 'own-id-upper',
                 'id-of-parent', 'id-of-sibling', 'odd']


def det_uuid(rnd):
    return str(uuid.UUID(int=rnd.getrandbits(128), version=4))


def uuid_like(s):
    try:
        return isinstance(s, str) and bool(uuid.UUID(s))
    except Exception:
        return False


def name_classes(root):
    """id(obj) -> relation between the name of obj and the ids of the tree (read from private fields)."""
    root = root_of(root)
    secs, props = ([], []) if isinstance(root, BaseProperty) else h.walk(root)
    objs = secs + props
    if isinstance(root, (BaseSection, BaseProperty)):
        objs = [root] + objs
    ids = {}
    for o in [root] + objs:
        ids.setdefault(o._id, o)
    out = {id(root): 'n/a'} if isinstance(root, BaseDocument) else {}
    for o in objs:
        nm, oid = o._name, o._id
        if nm == oid:
            c = 'name==own-id'
        elif uuid_like(nm):
            canon = str(uuid.UUID(nm))
            if canon == oid:
                c = 'name~own-id-in-other-spelling'
            elif nm in ids:
                c = 'name==id-of-other-object'
            elif canon in ids:
                c = 'name~id-of-other-object-in-other-spelling'
            else:
                c = 'name-is-foreign-uuid'
        elif nm in ODD_NAMES:
            c = 'odd-name'
        else:
            c = 'plain-name'
        out[id(o)] = c
    return out


def subtree_trait(node, classes):
    """Does the tree below node hold an object whose name is id-related?"""
    if isinstance(node, BaseProperty):
        return False
    secs, props = h.walk(node)
    return any(classes.get(id(o), 'plain-name') not in ('plain-name', 'odd-name', 'n/a') for o in secs + props)


def depth_of(n):
    d = 0
    while getattr(n, '_parent', None) is not None:
        d += 1
        n = n._parent
    return d


# ---------------------------------------------------------------------------------------------
# relation dimension: what an object has in common with ANOTHER object of the same document
# ---------------------------------------------------------------------------------------------
# Ids are not guaranteed to be unique: the constructors and new_id() accept any uuid (oid=...), a copy made with
# keep_id=True can be attached next to / below its original, and files with repeated ids load.  The same holds for
# names (unique among siblings only), own attributes and whole content.  A copy must be determined by WHICH object
# was copied, never by what that object happens to share with another one, so the generator varies, for every
# object at every depth, with whom it shares its id / name / attributes / content.

ID_MODES = ['doc@ctor', 'doc@new_id', 'parent@ctor', 'parent@new_id', 'ancestor@ctor', 'ancestor@new_id',
            'sibling@ctor', 'sibling@new_id', 'other-kind-sibling', 'child', 'descendant', 'other-branch']
CONTENT_MODES = ['name-of-parent', 'name-of-ancestor', 'attrs-of-parent', 'attrs-of-ancestor', 'attrs-of-other-branch']
REL_MODES = ID_MODES + CONTENT_MODES
REDUCED_REL_MODES = ['doc@ctor', 'parent@ctor', 'ancestor@new_id', 'sibling@new_id', 'child', 'other-branch',
                     'attrs-of-parent']

# a clone of an object attached elsewhere in the same document
GRAFT_WHERE = ['below-self', 'below-descendant', 'sibling', 'above', 'other-branch']
GRAFT_FLAGS = [(True, True), (True, False), (False, True), (False, False)]      # (children, keep_id)


def ancestors_of(o):
    out = []
    x = getattr(o, '_parent', None)
    while x is not None:
        out.append(x)
        x = getattr(x, '_parent', None)
    return out


def far_ancestor(parent):
    """The top-most Section above an object with the given parent that is not the parent itself (None: there is none)."""
    cands = [a for a in ancestors_of(parent) if isinstance(a, BaseSection)]
    return cands[-1] if cands else None


def kids_of(o):
    if isinstance(o, BaseProperty):
        return []
    return list(list.__iter__(o._sections)) + list(list.__iter__(getattr(o, '_props', [])))


def unrelated_to(doc, o):
    """Objects of the document that are neither o, an ancestor, a descendant nor a sibling of o (Sections first)."""
    secs, props = h.walk(doc)
    anc = ancestors_of(o)
    return [x for x in secs + props
            if x is not o and not any(x is a for a in anc) and not _inside(x, o) and x._parent is not o._parent]


def apply_relation(doc, o, rel):
    """Realise a relation through the public API (new_id(oid) / setters); False when impossible at this position."""
    par = o._parent
    target = None
    if rel in ID_MODES:
        if rel == 'doc@new_id':
            target = doc
        elif rel == 'parent@new_id':
            target = par
        elif rel == 'ancestor@new_id':
            target = far_ancestor(par)
        elif rel == 'sibling@new_id':
            lst = par._sections if isinstance(o, BaseSection) else par._props
            same = [c for c in list.__iter__(lst) if c is not o]
            target = same[-1] if same else None
        elif rel == 'other-kind-sibling':
            lst = getattr(par, '_props', []) if isinstance(o, BaseSection) else par._sections
            other = list(list.__iter__(lst))
            target = other[0] if other else None
        elif rel == 'child':
            kids = kids_of(o)
            target = kids[0] if kids else None
        elif rel == 'descendant':
            deep = [x for k in kids_of(o) for x in kids_of(k)]
            target = deep[-1] if deep else None
        elif rel == 'other-branch':
            cands = unrelated_to(doc, o)
            target = cands[0] if cands else None
        if target is None:
            return False
        return h.call(o.new_id, target._id)[0] == 'ret'
    if rel == 'attrs-of-other-branch':
        cands = [x for x in unrelated_to(doc, o) if kind_of(x) == kind_of(o)]
        target = cands[0] if cands else None
    else:
        target = par if rel.endswith('parent') else far_ancestor(par)
    if target is None or isinstance(target, BaseDocument):
        return False
    if rel.startswith('attrs') and kind_of(target) != kind_of(o):
        return False
    if h.call(setattr, o, 'name', target._name)[0] != 'ret' or o._name != target._name:
        return False
    if rel.startswith('attrs'):
        fields = ('type', 'definition', 'reference') if isinstance(o, BaseSection) else \
            ('definition', 'reference', 'unit', 'uncertainty', 'value_origin')
        for f in fields:
            h.call(setattr, o, f, getattr(target, f))
    return True


def graft_clone(doc, src, where, children, keep_id):
    """Attach a clone of src (made with the given flags) at another place of the document; False when impossible."""
    secs = h.walk(doc)[0]
    home = src._parent
    if isinstance(src, BaseProperty):
        if not children:
            return False                    # a Property has no children flag
        below = [s for s in secs if _inside(s, home) and s is not home]
        target = {'below-self': None,
                  'below-descendant': below[-1] if below else None,
                  'sibling': home,
                  'above': far_ancestor(home) or (home._parent if isinstance(home._parent, BaseSection) else None),
                  'other-branch': next((s for s in secs if not _inside(s, home) and not _inside(home, s)), None)}[where]
        kind, cp = h.call(src.clone, keep_id=keep_id)
    else:
        below = [s for s in secs if _inside(s, src) and s is not src]
        target = {'below-self': src,
                  'below-descendant': below[-1] if below else None,
                  'sibling': home,
                  'above': None if isinstance(home, BaseDocument) else (far_ancestor(home) or home._parent),
                  'other-branch': next((s for s in secs if not _inside(s, src) and not _inside(src, s)
                                        and s is not home), None)}[where]
        kind, cp = h.call(src.clone, children=children, keep_id=keep_id)
    if target is None or kind == 'exc':
        return False
    if h.call(target.append, cp)[0] == 'ret':
        return True
    # refused because of a sibling of that name: the copy gets another name (everything else stays equal)
    h.call(setattr, cp, 'name', cp._name + '-copy')
    return h.call(target.append, cp)[0] == 'ret'


ID_RELATIONS = ['parent', 'ancestor', 'document', 'child', 'descendant', 'sibling', 'elsewhere']


def id_classes(root):
    """id(obj) -> with whom the object shares its id (read from private fields): 'unique' or the first relation that
    holds out of ID_RELATIONS (parent / ancestor mean a Section), '+more' when several hold."""
    root = root_of(root)
    objs = [root] + ([] if isinstance(root, BaseProperty) else [x for l in h.walk(root) for x in l])
    by_id = {}
    for o in objs:
        by_id.setdefault(o._id, []).append(o)
    out = {}
    for o in objs:
        rels = set()
        anc = ancestors_of(o)
        par = anc[0] if anc else None
        for x in by_id[o._id]:
            if x is o:
                continue
            if isinstance(x, BaseDocument):
                rels.add('document')
            elif x is par:
                rels.add('parent')
            elif any(x is a for a in anc):
                rels.add('ancestor')
            elif x._parent is o:
                rels.add('child')
            elif _inside(x, o):
                rels.add('descendant')
            elif x._parent is par:
                rels.add('sibling')
            else:
                rels.add('elsewhere')
        first = [r for r in ID_RELATIONS if r in rels][:1]
        out[id(o)] = ('id==' + first[0] + ('+more' if len(rels) > 1 else '')) if rels else 'unique'
    return out


def content_classes(root):
    """id(obj) -> what a Section / Property has in common, apart from the id, with an object above it or elsewhere:
    the strongest of  content (own attributes and, for a Section, all its Properties) / name,  and where."""
    root = root_of(root)
    objs = [] if isinstance(root, BaseProperty) else [x for l in h.walk(root) for x in l]
    if isinstance(root, BaseSection):
        objs = [root] + objs

    def own(o):
        d = raw_snap(o, ids=False)
        d.pop('sections', None)
        return h.freeze(d)
    sig = {id(o): own(o) for o in objs}
    out = {}
    for o in objs:
        anc = [a for a in ancestors_of(o) if not isinstance(a, BaseDocument)]
        named = anc
        if isinstance(o, BaseProperty):
            named = anc + [p for a in anc[1:] for p in list.__iter__(a._props)]
            anc = [p for a in anc[1:] for p in list.__iter__(a._props)]     # Properties of the Sections above
        others = [x for x in objs if x is not o and kind_of(x) == kind_of(o) and not any(x is a for a in anc)
                  and not _inside(x, o)]
        if any(sig[id(a)] == sig[id(o)] for a in anc):
            c = 'content-of-object-above'
        elif any(a._name == o._name for a in named):
            c = 'name-of-object-above'
        elif any(sig[id(x)] == sig[id(o)] for x in others):
            c = 'content-of-object-elsewhere'
        else:
            c = 'distinct'
        out[id(o)] = c
    return out


def build_named(shape, rnd, mode_of, props_per_sec=(0, 1, 2), rich=True, rel_of=None, infeasible=None, graft=None):
    """Document over a forest shape; mode_of(kind, k) gives the naming mode of the k-th created object
    (Sections and Properties are counted together in creation order: a Section, its Properties, its sub-Sections).
    rel_of(kind, k) gives the relation mode (REL_MODES: whose id / name / attributes the k-th object shares; 'own' = none);
    graft = (k, where, children, keep_id): a clone of the k-th object is attached elsewhere in the document.
    A relation / graft that cannot be realised at that position is appended to the list `infeasible`."""
    post = []
    counter = [0]
    if infeasible is None:
        infeasible = []

    def nxt(kind):
        k = counter[0]
        counter[0] += 1
        return mode_of(kind, k), (rel_of(kind, k) if rel_of else 'own')

    def ctor_oid(rel, parent, elders):
        """id known when the object is created (relation realised through the constructor argument oid)"""
        if rel == 'doc@ctor':
            return doc._id
        if rel == 'parent@ctor':
            return parent._id
        if rel == 'ancestor@ctor':
            a = far_ancestor(parent)
            return a._id if a is not None else None
        if rel == 'sibling@ctor':
            return elders[-1]._id if elders else None
        return None

    def create(cls, rel, parent, elders, kw):
        if rel.endswith('@ctor'):
            oid = ctor_oid(rel, parent, elders)
            if oid is None:
                infeasible.append(rel)
            else:
                kind, obj = h.call(cls, parent=parent, **dict(kw, oid=oid))
                if kind == 'ret':
                    return obj
                infeasible.append(rel)          # refused (an unnamed object is named after the id: name clash)
        return cls(parent=parent, **kw)

    def ctor_name(mode, used, pool):
        kw = {}
        if mode in ('unnamed', 'unnamed-then-new-id'):
            return kw
        if mode == 'unnamed-oid':
            return {'oid': det_uuid(rnd)}
        if mode == 'unnamed-oid-upper':
            return {'oid': det_uuid(rnd).upper()}
        if mode == 'empty-name':
            return {'name': ''}
        name = rnd.choice(ODD_NAMES if mode == 'odd' else pool)
        while name in used:
            name += rnd.choice(['a', 'b', '1'])
        used.add(name)
        return {'name': name}

    with h.quiet():
        doc = odml.Document(author=rnd.choice([None, 'me', 'Ann B.']), version=rnd.choice([None, '1.0', 'v2']),
                            date=rnd.choice([None, dt.date(2020, 5, 17)]))

        def add(parent, forest):
            used = set()
            elders = []
            for sub in forest:
                mode, rel = nxt('section')
                kw = ctor_name(mode, used, PLAIN_NAMES)
                if rnd.random() < 0.85:
                    kw['type'] = rnd.choice(['t', 'setup/daq', 'n.s.x'])      # else the default type
                if rich:
                    kw['definition'] = rnd.choice([None, 'def', ' spaced def '])
                    kw['reference'] = rnd.choice([None, 'ref'])
                sec = create(odml.Section, rel, parent, elders, kw)
                elders.append(sec)
                post.append((sec, mode, rel))
                if rich and rnd.random() < 0.3:
                    sec.sec_cardinality = rnd.choice(h.CARDS)
                if rich and rnd.random() < 0.3:
                    sec.prop_cardinality = rnd.choice(h.CARDS)
                pused = set()
                pelders = []
                for _ in range(rnd.choice(props_per_sec)):
                    pmode, prel = nxt('property')
                    pkw = ctor_name(pmode, pused, PLAIN_NAMES)
                    dtype = rnd.choice(list(h.VALUE_POOL))
                    vals = list(rnd.choice(h.VALUE_POOL[dtype] + [[]]))
                    if rnd.random() < 0.15:
                        dtype = None                                            # dtype inferred from the values
                    p = create(odml.Property, prel, sec, pelders, dict(pkw, dtype=dtype, values=vals))
                    pelders.append(p)
                    post.append((p, pmode, prel))
                    if rich:
                        if rnd.random() < 0.4:
                            p.unit = rnd.choice(['mV', 'µm', 's'])
                        if rnd.random() < 0.3:
                            p.uncertainty = rnd.choice([0.5, 2, 0, 0.0])
                        if rnd.random() < 0.3:
                            p.definition = rnd.choice(['pdef', 'Def,with "chars" <&>'])
                        if rnd.random() < 0.2:
                            p.reference = 'pref'
                        if rnd.random() < 0.2:
                            p.value_origin = 'file.dat'
                        if rnd.random() < 0.2:
                            p.dependency = 'dep'
                            p.dependency_value = 'dv'
                        if rnd.random() < 0.3:
                            p.val_cardinality = rnd.choice(h.CARDS)
                add(sec, sub)
        add(doc, shape)

        # relations to objects known only now: ids through new_id(oid), names / attributes through the setters
        for o, mode, rel in post:
            if rel != 'own' and not rel.endswith('@ctor'):
                if not apply_relation(doc, o, rel):
                    infeasible.append(rel)

        # second pass: names that refer to ids known only now (set through the public setter; a clash with a
        # sibling is refused by the library and the object keeps the name it has)
        everything = [doc] + [o for o, _, _ in post]
        for o, mode, rel in post:
            par = o._parent
            new = None
            if mode == 'renamed-to-default':
                h.call(setattr, o, 'name', None)
            elif mode == 'unnamed-then-new-id':
                h.call(o.new_id)
            elif mode in SPELLINGS:
                new = SPELLINGS[mode](o._id)
            elif mode == 'foreign-uuid':
                new = det_uuid(rnd)
            elif mode == 'foreign-uuid-upper':
                new = det_uuid(rnd).upper()
            elif mode == 'id-of-document':
                new = doc._id
            elif mode == 'id-of-parent':
                new = par._id
            elif mode == 'id-of-sibling':
                same = [c for c in list.__iter__(par._sections if isinstance(o, BaseSection) else par._props)
                        if c is not o]
                other = [c for c in list.__iter__(getattr(par, '_props', []) if isinstance(o, BaseSection)
                                                  else par._sections)]
                cands = same or other
                new = cands[0]._id if cands else doc._id
            elif mode == 'id-of-child':
                kids = [] if isinstance(o, BaseProperty) else \
                    list(list.__iter__(o._sections)) + list(list.__iter__(o._props))
                new = kids[0]._id if kids else par._id
            elif mode == 'id-of-other':
                new = rnd.choice([x for x in everything if x is not o])._id
            if new is not None:
                h.call(setattr, o, 'name', new)

        if graft is not None:
            k, where, children, keep_id = graft
            if k >= len(post) or not graft_clone(doc, post[k][0], where, children, keep_id):
                infeasible.append('graft')
    return doc


FORMATS = ['XML', 'JSON', 'YAML']


def via_file(doc, fmt, tag='load', raw=False):
    """Save the document and load it again (real files below .work); None when the library refuses."""
    d = os.path.join(WORK, '%s-%d' % (tag, os.getpid()))
    os.makedirs(d, exist_ok=True)
    path = os.path.join(d, 'doc.' + fmt.lower())
    try:
        kind, _ = h.call(odml.save, doc, path, fmt)
        if kind == 'exc' and raw:
            # odml.save refuses documents it finds invalid (e.g. repeated ids); such files exist nevertheless and load:
            # write what the (non-validating) writer renders
            from odml.tools.odmlparser import ODMLWriter
            kind, text = h.call(ODMLWriter(fmt).to_string, doc)
            if kind == 'ret':
                with open(path, 'w', encoding='utf-8') as f:
                    f.write(text)
        if kind == 'exc':
            return None
        kind, res = h.call(odml.load, path, fmt)
        return res if kind == 'ret' and isinstance(res, BaseDocument) else None
    finally:
        if os.path.exists(path):
            os.remove(path)


def cleanup_work():
    for tag in ('load', 'tpl'):
        shutil.rmtree(os.path.join(WORK, '%s-%d' % (tag, os.getpid())), ignore_errors=True)
    try:
        os.rmdir(WORK)
    except OSError:
        pass


def tidy(fn):
    """The scratch directory of this process is removed also when the run stops with an exception."""
    def run(tier, seed):
        try:
            return fn(tier, seed)
        finally:
            cleanup_work()
            uninstall_repositories()
    run.__name__, run.__doc__ = fn.__name__, fn.__doc__
    return run


PLACEMENT_SHAPES_QUICK = [((),), (((),),), ((((),),),), ((), ())]
PLACEMENT_SHAPES_THOROUGH = PLACEMENT_SHAPES_QUICK + [(((), ()),), (((((),),),),)]


def count_objects(shape, props_each):
    n = 0
    for sub in shape:
        n += 1 + props_each + count_objects(sub, props_each)
    return n


def naming_makers(tier, seed, scope='full', max_secs=None, per_shape=1):
    """[(witness, make)] over the naming dimension.
    1. placement (exhaustive): every placement shape x every position (each Section, each Property, i.e. every depth)
       x every naming mode: exactly that object is special, all others have plain names;
    2. uniform: every object of the document has the same mode;
    3. mixtures: all forest shapes up to max_secs Sections, every object draws its mode at random;
    4. the same documents saved to a file and loaded again (XML / JSON / YAML).
    scope='reduced' keeps the dimension but fewer modes / shapes (for the expensive independence runs)."""
    out = []
    modes = [m for m in NAME_MODES if m != 'plain'] if scope == 'full' else list(REDUCED_MODES)
    shapes = PLACEMENT_SHAPES_THOROUGH if (tier != 'quick' and scope == 'full') else PLACEMENT_SHAPES_QUICK
    uniform_shapes = shapes
    if scope != 'full':
        shapes = [(((),),)] if tier == 'quick' else PLACEMENT_SHAPES_QUICK
        uniform_shapes = [(((),),), ((), ())] if tier == 'quick' else PLACEMENT_SHAPES_QUICK
    if max_secs is None:
        max_secs = 3 if tier == 'quick' else 4
    specs = []
    for shape in shapes:
        n = count_objects(shape, 1)
        for pos in range(n):
            for mode in modes:
                specs.append((shape, 'one:%s@%d' % (mode, pos), (1,)))
    for shape in uniform_shapes:
        for mode in modes:
            specs.append((shape, 'all:%s' % mode, (1, 2)))
    for shape in h.tree_shapes(max_secs):
        if not shape:
            continue
        for k in range(per_shape):
            specs.append((shape, 'mix:%d' % k, (0, 1, 2)))

    def maker(shape, naming, pps, fmt):
        fill = 'c11-name-%s-%r-%s' % (seed, shape, naming)

        def make():
            rnd = random.Random(fill)
            if naming.startswith('one:'):
                mode, pos = naming[4:].split('@')
                pos = int(pos)
                mode_of = (lambda kind, k: mode if k == pos else 'plain')
            elif naming.startswith('all:'):
                mode_of = (lambda kind, k: naming[4:])
            else:
                mrnd = random.Random(fill + 'm')
                mode_of = (lambda kind, k: 'plain' if mrnd.random() < 0.35 else mrnd.choice(NAME_MODES))
            doc = build_named(shape, rnd, mode_of, props_per_sec=pps)
            if fmt:
                doc = via_file(doc, fmt)
            return doc
        return ({'shape': repr(shape), 'fill': fill, 'linked': False, 'naming': naming, 'loaded': fmt}, make)

    for n, (shape, naming, pps) in enumerate(specs):
        out.append(maker(shape, naming, pps, None))
        if tier == 'quick' and scope != 'full':
            fmts = [FORMATS[(n + n // len(modes)) % 3]] if (naming.startswith('mix:') or (naming.startswith('all:') and n % 2 == 0)) else []
        elif tier == 'quick' or scope != 'full':
            fmts = [FORMATS[(n + n // len(modes)) % 3]] if (naming.startswith(('all:', 'mix:')) or n % 4 == 0) else []
        else:
            fmts = FORMATS if naming.startswith(('all:', 'mix:')) else [FORMATS[(n + n // len(modes)) % 3]]
        for fmt in fmts:
            wit, make = maker(shape, naming, pps, fmt)
            if make() is not None:          # the library may refuse to write / read a document; then there is no original
                out.append((wit, make))
    return out


REL_SHAPES_QUICK = [((((),),),), (((),), ())]
REL_SHAPES_THOROUGH = REL_SHAPES_QUICK + [(((), ()),), ((((),), ()),)]


def relation_makers(tier, seed, scope='full'):
    """[(witness, make)] over the relation dimension (see REL_MODES / GRAFT_WHERE).
    1. placement (exhaustive): every shape x every position (each Section, each Property, every depth) x every
       relation mode that can be realised there: exactly that object shares its id / name / attributes with the
       Document, its parent, an ancestor, a sibling, a child, a descendant or an object of another branch;
    2. uniform: every object of the document has the same relation mode (e.g. every id is the parent's id, hence
       all ids of the document are equal);
    3. grafts (exhaustive): every position x every place x clone flags: a clone of that object, made with / without
       keep_id and with / without children, attached below the original, below a descendant, next to it, above
       it, in another branch;
    4. mixtures: every object draws its relation mode AND its naming mode at random, plus a random graft;
    5. the same documents written to a file and loaded again (XML / JSON / YAML).
    scope='reduced': fewer modes / shapes / flags (for the expensive independence runs)."""
    full = scope == 'full'
    modes = list(REL_MODES) if full else list(REDUCED_REL_MODES)
    shapes = (REL_SHAPES_THOROUGH if tier != 'quick' else REL_SHAPES_QUICK) if full else \
        REL_SHAPES_QUICK
    # once=True: only the deepest position where the relation can be realised (instead of every position)
    once = not full and tier == 'quick'
    specs = []
    for shape in shapes:
        n = count_objects(shape, 1)
        for mode in modes:
            for pos in reversed(range(n)):
                specs.append((shape, 'one:%s@%d' % (mode, pos), (1,)))
    for shape in shapes:
        for mode in (modes if not once else ['parent@ctor', 'sibling@new_id']):
            specs.append((shape, 'all:%s' % mode, (1, 2) if full else (1,)))
    if full:
        wheres = GRAFT_WHERE
        flags = {w: (GRAFT_FLAGS if (tier != 'quick' or w == 'below-self') else GRAFT_FLAGS[:2]) for w in wheres}
    else:
        wheres = ['below-self', 'sibling', 'other-branch']
        flags = {w: GRAFT_FLAGS[:2] for w in wheres}
    for shape in shapes:
        n = count_objects(shape, 1)
        for where in wheres:
            for children, keep_id in flags[where]:
                for pos in reversed(range(n)):
                    specs.append((shape, 'graft:%s:%s:%s@%d' % (where, 'children' if children else 'nochildren',
                                                                'keepid' if keep_id else 'newid', pos), (1,)))
    for shape in h.tree_shapes(3 if (tier == 'quick' or not full) else 4):
        if sum(1 for ch in repr(shape) if ch == '(') - 1 < (3 if once else 2):
            continue
        for k in range(1 if (tier == 'quick' or not full) else 2):
            specs.append((shape, 'mix:%d' % k, (0, 1, 2)))

    def maker(shape, spec, pps, fmt):
        fill = 'c11-rel-%s-%r-%s' % (seed, shape, spec)

        def make():
            rnd = random.Random(fill)
            bad = []
            graft = None
            rel_of = None
            mode_of = (lambda kind, k: 'plain')
            if spec.startswith('one:'):
                mode, pos = spec[4:].rsplit('@', 1)
                pos = int(pos)
                rel_of = (lambda kind, k: mode if k == pos else 'own')
            elif spec.startswith('all:'):
                rel_of = (lambda kind, k: spec[4:])
            elif spec.startswith('graft:'):
                body, pos = spec[6:].rsplit('@', 1)
                where, ch, ki = body.split(':')
                graft = (int(pos), where, ch == 'children', ki == 'keepid')
            else:
                mrnd = random.Random(fill + 'm')
                rel_of = (lambda kind, k: 'own' if mrnd.random() < 0.4 else mrnd.choice(REL_MODES))
                mode_of = (lambda kind, k: 'plain' if mrnd.random() < 0.5 else mrnd.choice(NAME_MODES))
                if mrnd.random() < 0.6:
                    graft = (mrnd.randrange(6), mrnd.choice(GRAFT_WHERE), mrnd.random() < 0.7, mrnd.random() < 0.6)
            doc = build_named(shape, rnd, mode_of, props_per_sec=pps, rel_of=rel_of, infeasible=bad, graft=graft)
            if bad and spec.startswith(('one:', 'graft:')):
                return None                 # this relation cannot be realised at this position: no case
            if fmt:
                doc = via_file(doc, fmt, raw=True)
            return doc
        return ({'shape': repr(shape), 'fill': fill, 'linked': False, 'naming': 'plain', 'relations': spec,
                 'loaded': fmt}, make)

    out = []
    n = 0
    done = set()
    for shape, spec, pps in specs:
        group = (shape, spec.rsplit('@', 1)[0])
        if once and group in done:
            continue
        wit, make = maker(shape, spec, pps, None)
        if make() is None:
            continue
        done.add(group)
        out.append((wit, make))
        n += 1
        if spec.startswith(('all:', 'mix:')):
            fmts = FORMATS if (tier != 'quick' and full) else ([FORMATS[n % 3]] if (tier != 'quick' or n % 2 == 0) else [])
        elif full:
            fmts = [FORMATS[n % 3]] if n % (6 if tier == 'quick' else 3) == 0 else []
        else:
            fmts = [FORMATS[n % 3]] if n % 8 == 0 else []
        for fmt in fmts:
            wit, make = maker(shape, spec, pps, fmt)
            if make() is not None:
                out.append((wit, make))
    return out


# ---------------------------------------------------------------------------------------------
# inherited-attribute dimension: which level DEFINES an attribute that the levels below only inherit
# ---------------------------------------------------------------------------------------------
# `repository` is the attribute of a Document / Section whose applicable value (get_repository()) is inherited from
# the nearest object above that defines one.  What an object OWNS (the attribute) and what APPLIES to it are two
# things; a copy has to carry over what the original owns, object by object - nothing more, nothing less.
# The URLs are put into the library's terminology cache up front: the setter / the file readers / the validation
# then find them there (no network access, no loader thread).

INH_URLS = ['http://c11.invalid/term-%d.xml' % i for i in range(6)]
INH_SHAPES_QUICK = [((((),),),), (((),), ()), (((), ()),)]
INH_SHAPES_THOROUGH = INH_SHAPES_QUICK + [((((),), ()),), (((((),),),),), ((((), ()),),)]


def install_repositories():
    from odml import terminology
    cache = terminology.terminologies
    for url in INH_URLS:
        if url not in cache:
            with h.quiet():
                term = odml.Document(author='terminology', version='1')
                odml.Section(name='tsec', type='t', parent=term)
            cache[url] = term
        cache.loading.pop(url, None)


def uninstall_repositories():
    from odml import terminology
    for url in INH_URLS:
        terminology.terminologies.pop(url, None)


def levels_of(doc):
    """The objects that can define a repository: the Document (level 0), then the Sections breadth first."""
    return [doc] + h.walk(doc)[0]


def inherit_classes(root):
    """id(obj) -> how the repository that applies to a Document / Section relates to what it owns (private fields)."""
    out = {}

    def rec(o, above):          # above: [(distance, url)] nearest definer above, or None
        own = o._repository
        if own is None:
            if above is None:
                lab = 'none'
            else:
                lab = 'inherited-from-%s' % above[0]
        elif above is None:
            lab = 'own'
        else:
            lab = 'own-%s-as-inherited-from-%s' % ('same-url' if own == above[1] else 'other-url', above[0])
        out[id(o)] = lab
        kids = list(list.__iter__(o._sections))
        for c in kids:
            if own is not None:
                nxt = ('document' if isinstance(o, BaseDocument) else 'parent', own)
            elif above is not None:
                nxt = (above[0] if above[0] == 'document' else 'ancestor', above[1])
            else:
                nxt = None
            rec(c, nxt)
    rec(root, None)
    return out


def inherit_makers(tier, seed, scope='full'):
    """[(witness, make)] over the inherited-attribute dimension.
    1. subsets (exhaustive): every shape x every subset of levels {Document, each Section} defines a repository of
       its own, all URLs different (covers: Document only, one ancestor Section only, the Section itself, several levels);
    2. same URL: the Document and one Section (each in turn) define the SAME URL (owned value == inherited value);
    3. the value is set through the public setter / written into the field the way the constructors do;
    4. the same documents written to a file and loaded again (XML / JSON / YAML).
    scope='reduced': one shape, the subsets with at most two definers (for the expensive independence runs)."""
    full = scope == 'full'
    shapes = (INH_SHAPES_THOROUGH if tier != 'quick' else INH_SHAPES_QUICK) if full else \
        (INH_SHAPES_QUICK[:1] if tier == 'quick' else INH_SHAPES_QUICK)
    specs = []
    for shape in shapes:
        n = count_objects(shape, 0) + 1
        for mask in range(1, 2 ** n):
            levels = [i for i in range(n) if mask >> i & 1]
            if (not full or n > 4) and 2 < len(levels) < n:
                continue
            if not full and tier == 'quick' and len(levels) == 2 and 0 not in levels:
                continue
            specs.append((shape, 'define:' + ','.join('%d=%d' % (lv, k) for k, lv in enumerate(levels))))
        for lv in range(1, n) if (full or tier != 'quick') else (n - 1,):
            specs.append((shape, 'define:0=0,%d=0' % lv))

    def maker(shape, spec, how, fmt):
        fill = 'c11-inh-%s-%r' % (seed, shape)

        def make():
            install_repositories()
            doc = h.build_doc(shape, random.Random(fill), names=['a', 'ab', 'b', 'c'], props_per_sec=(1, 2))
            levels = levels_of(doc)
            for part in spec[7:].split(','):
                lv, k = part.split('=')
                obj, url = levels[int(lv)], INH_URLS[int(k)]
                if how == 'setter':
                    kind, _ = h.call(setattr, obj, 'repository', url)
                    if kind == 'exc':
                        return None
                else:
                    obj._repository = url
            if fmt:
                doc = via_file(doc, fmt)
            return doc
        return ({'shape': repr(shape), 'fill': fill, 'linked': False, 'naming': 'plain', 'inherit': '%s %s' % (spec, how),
                 'loaded': fmt}, make)

    out = []
    for n, (shape, spec) in enumerate(specs):
        how = ('setter', 'field')[n % 2]
        out.append(maker(shape, spec, how, None))
        if full and tier != 'quick':
            out.append(maker(shape, spec, ('field', 'setter')[n % 2], None))
        if tier != 'quick' and full:
            fmts = FORMATS
        else:
            fmts = [FORMATS[n % 3]] if n % (4 if full else 5) == 0 else []
        for fmt in fmts:
            wit, make = maker(shape, spec, how, fmt)
            if make() is not None:
                out.append((wit, make))
    return out


def effective_repositories(root, above=None):
    """[(object, repository that applies to it)] computed from the private fields: the own value if there is one,
    else the value of the nearest object above that has one (`above`: what applies above root)."""
    out = []

    def rec(o, inherited):
        eff = o._repository if o._repository is not None else inherited
        out.append((o, eff))
        for c in list.__iter__(o._sections):
            rec(c, eff)
    rec(root, above)
    return out


def observed_effective(root):
    """What get_repository() reports for every Document / Section of the tree (public API)."""
    out = []
    if isinstance(root, BaseProperty):
        return out
    with h.quiet():
        for o in [root] + h.walk(root)[0]:
            kind, v = lcall(o.get_repository)
            out.append(v if kind == 'ret' else 'raised %s' % type(v).__name__)
    return tuple(out)


# ---------------------------------------------------------------------------------------------
# value-content dimension: WHAT the copied Properties hold
# ---------------------------------------------------------------------------------------------
# The contract quantifies over all documents, hence over every value a Property can legitimately hold.  A copy is
# made from the STORED values, so the extreme and unusual members of every dtype are enumerated here: each one entered
# as text in the documented format (what the file readers hand in) and as the native Python object, alone and among
# ordinary values of the same dtype, in the Section that is copied / exported and in a Section above it.  A value is
# legitimate when the library accepted it (the document could be built); the oracle is the one of every other
# document: the copy is handed out, equals what the original holds, and is independent of it.

_SAME = object()      # the native form is the text itself

VALUE_CASES = {
    'date': [('year-below-1000', '0987-06-05', dt.date(987, 6, 5)), ('year-below-100', '0033-04-03', dt.date(33, 4, 3)),
             ('first-date', '0001-01-01', dt.date.min), ('last-date', '9999-12-31', dt.date.max),
             ('leap-day', '2000-02-29', dt.date(2000, 2, 29))],
    'datetime': [('year-below-1000', '0987-06-05 04:03:02', dt.datetime(987, 6, 5, 4, 3, 2)),
                 ('year-1', '0001-01-01 00:00:00', dt.datetime(1, 1, 1, 0, 0, 0)),
                 ('last-datetime', '9999-12-31 23:59:59', dt.datetime(9999, 12, 31, 23, 59, 59)),
                 ('midnight', '2020-01-02 00:00:00', dt.datetime(2020, 1, 2, 0, 0, 0)),
                 ('last-second-of-day', '1999-12-31 23:59:59', dt.datetime(1999, 12, 31, 23, 59, 59))],
    'time': [('midnight', '00:00:00', dt.time(0, 0, 0)), ('last-second-of-day', '23:59:59', dt.time(23, 59, 59)),
             ('single-digits', '01:02:03', dt.time(1, 2, 3))],
    'int': [('zero', '0', 0), ('negative', '-5', -5), ('huge', '123456789012345678901234567890', 10 ** 29 + 7),
            ('negative-huge', '-98765432109876543210', -98765432109876543210)],
    'float': [('inf', 'inf', float('inf')), ('negative-inf', '-inf', float('-inf')), ('nan', 'nan', float('nan')),
              ('negative-zero', '-0.0', -0.0), ('huge', '1e308', 1e308), ('tiny', '5e-324', 5e-324),
              ('zero', '0.0', 0.0), ('not-exactly-representable', '0.30000000000000004', 0.1 + 0.2)],
    'boolean': [('true', 'true', True), ('false', 'false', False), ('true-abbreviated', 't', _SAME),
                ('false-as-digit', '0', _SAME)],
    'string': [('empty', '', _SAME), ('blank', ' ', _SAME), ('tab-and-blanks', ' \t ', _SAME),
               ('line-break', 'a\nb', _SAME), ('blanks-around', '  x  ', _SAME), ('only-line-break', '\n', _SAME),
               ('carriage-return-line-break', 'a\r\nb', _SAME)],
    'text': [('empty', '', _SAME), ('only-line-breaks', '\n\n', _SAME), ('line-breaks', 'l1\nl2\n', _SAME),
             ('carriage-return-line-break', 'l1\r\nl2', _SAME)],
    'url': [('non-ascii', 'http://ex\u00e4mple.org/\u00fc?x=1&y=2#frag', _SAME),
            ('blank-in-path', 'file:///C:/a b/c.xml', _SAME), ('not-a-url', 'not a url', _SAME), ('empty', '', _SAME)],
    'person': [('apostrophe-non-ascii', "O'Brien, Se\u00e1n", _SAME), ('blank', ' ', _SAME),
               ('digits-and-symbols', 'X \u00c6 A-12 <x@y.z>', _SAME)],
    '2-tuple': [('both-elements-empty', '(;)', ['', '']), ('second-element-empty', '(a;)', ['a', '']),
                ('first-element-empty', '(;b)', ['', 'b']), ('blank-elements', '( ; )', [' ', ' ']),
                ('line-break-in-element', '(a\nb;c)', ['a\nb', 'c'])],
    '3-tuple': [('all-elements-empty', '(;;)', ['', '', '']), ('middle-element-empty', '(a;;c)', ['a', '', 'c'])],
}

ORDINARY = {
    'string': ['n1', 'n2'], 'text': ['nt\n1', 'nt2'], 'int': [41, 42], 'float': [4.5, 5.5], 'boolean': [True, False],
    'date': [dt.date(2021, 2, 3), dt.date(2022, 3, 4)], 'time': [dt.time(1, 2, 3), dt.time(4, 5, 6)],
    'datetime': [dt.datetime(2021, 2, 3, 4, 5, 6), dt.datetime(2022, 1, 1, 1, 1, 1)],
    'url': ['http://n.org/1', 'http://n.org/2'], 'person': ['New, P', 'Other, Q'],
    '2-tuple': ['(7;8)', '(9;0)'], '3-tuple': ['(x;y;z)', '(u;v;w)'],
}


def ordinary_values(dtype, entered):
    """Two ordinary values of the dtype, as native objects or as text in the documented format."""
    vals = list(ORDINARY[dtype])
    if entered == 'native':
        return [_deep(tuple_elements(v)) if dtype.endswith('-tuple') else v for v in vals]
    if dtype == 'datetime':
        return ['%s %s' % (v.date().isoformat(), v.time().isoformat()) for v in vals]
    if dtype in ('date', 'time'):
        return [v.isoformat() for v in vals]
    if dtype == 'boolean':
        return ['true' if v else 'false' for v in vals]
    if dtype in ('int', 'float'):
        return [repr(v) for v in vals]
    return vals


def tuple_elements(text):
    return text[1:-1].split(';')


def value_specs(tier):
    """[(dtype, class label, entered, among, place)] - every class x every way of entering it; alone AND among
    ordinary values, in the copied Section AND in the Section above it (quick tier: these two alternate)."""
    out = []
    n = 0
    for dtype, cases in VALUE_CASES.items():
        for label, text, native in cases:
            for entered in ('text', 'native'):
                if entered == 'native' and native is _SAME:
                    continue
                combos = [(a, p) for a in (False, True) for p in ('leaf', 'chain')]
                if tier == 'quick':
                    combos = [combos[n % 4]]
                    n += 1
                for among, place in combos:
                    out.append((dtype, label, entered, among, place))
    return out


def special_value(dtype, label, entered):
    for lab, text, native in VALUE_CASES[dtype]:
        if lab == label:
            return text if (entered == 'text' or native is _SAME) else _deep(native)
    raise KeyError(label)


def build_value_doc(dtype, label, entered, among, place):
    """Document / Section 'site' / Section 'layer'; the Property 'special' holds the value (in 'layer', or in 'site'
    which lies on the chain of 'layer'); every Section also has an ordinary Property of the same dtype.
    None when the library does not accept the value (then there is no original to copy)."""
    special = special_value(dtype, label, entered)
    vals = [special]
    if among:
        o = ordinary_values(dtype, entered)
        vals = [o[0], special, o[1]]
    with h.quiet():
        try:
            doc = odml.Document(author='values', version='1')
            site = odml.Section(name='site', type='t', parent=doc)
            layer = odml.Section(name='layer', type='t/l', parent=site)
            odml.Property(name='usual', dtype=dtype, values=ordinary_values(dtype, 'native'), parent=site)
            odml.Property(name='special', dtype=dtype, values=vals, parent=layer if place == 'leaf' else site)
            odml.Property(name='word', dtype='string', values=['w'], parent=layer)
        except Exception:       # noqa - not accepted: not a stored value
            return None
    return doc


def value_makers(tier, seed):
    """[(witness, make)] over the value-content dimension (see above)."""
    out = []
    for dtype, label, entered, among, place in value_specs(tier):
        wit = {'shape': '(((),),)', 'fill': 'c11-values', 'linked': False, 'naming': 'plain', 'loaded': None,
               'values': '%s %s' % (dtype, label), 'entered': entered, 'among-ordinary': among, 'place': place}
        make = (lambda a=(dtype, label, entered, among, place): build_value_doc(*a))
        if make() is not None:
            out.append((wit, make))
    return out


def value_suffix(wit):
    """Part of the failure class of a document of the value-content dimension: WHICH value makes the case special."""
    return ' [holds %s]' % wit['values'] if wit.get('values') else ''


def value_key(wit):
    return (wit.get('values', ''), wit.get('entered', ''), wit.get('among-ordinary', ''), wit.get('place', ''))


# ---------------------------------------------------------------------------------------------
# documents (re-buildable: independence checks destroy the original)
# ---------------------------------------------------------------------------------------------

def doc_makers(tier, seed, max_secs=None, per_shape=None, naming='full', relations='full', inherit='full', values=True):
    """[(witness, make)] ; make() builds the same document (up to uuids) every time it is called."""
    if max_secs is None:
        max_secs = 4 if tier == 'quick' else 5
    if per_shape is None:
        per_shape = 2 if tier == 'quick' else 4
    out = []
    for shape in h.tree_shapes(max_secs):
        for k in range(per_shape):
            fill = 'c11-%s-%r-%d' % (seed, shape, k)
            out.append(({'shape': repr(shape), 'fill': fill, 'linked': False, 'naming': 'plain', 'loaded': None},
                        (lambda shape=shape, fill=fill: h.build_doc(shape, random.Random(fill)))))
    # documents with a resolved link (a merged Section remembers its target in _merged)
    for shape in h.tree_shapes(min(max_secs, 4)):
        if len(shape) < 2:
            continue
        for lnaming in ('plain', 'all:unnamed'):
            if lnaming != 'plain' and tier == 'quick' and sum(1 for ch in repr(shape) if ch == '(') - 1 > 3:
                continue
            fill = 'c11-link-%s-%r-%s' % (seed, shape, lnaming)

            def make(shape=shape, fill=fill, naming=lnaming):
                if naming == 'plain':
                    doc = h.build_doc(shape, random.Random(fill), names=['a', 'ab', 'b', 'c', 'd', 'e'])
                else:
                    doc = build_named(shape, random.Random(fill), lambda kind, k: 'unnamed')
                first, last = doc._sections[0], doc._sections[-1]
                kind, _ = h.call(setattr, first, 'link', '/' + last._name)
                return doc if kind == 'ret' else h.build_doc(shape, random.Random(fill))
            out.append(({'shape': repr(shape), 'fill': fill, 'linked': True, 'naming': lnaming, 'loaded': None}, make))
    if naming:
        out += naming_makers(tier, seed, scope=naming)
    if relations:
        out += relation_makers(tier, seed, scope=relations)
    if inherit:
        out += inherit_makers(tier, seed, scope=inherit)
    if values:
        out += value_makers(tier, seed)
    return out


def all_nodes(doc):
    secs, props = h.walk(doc)
    return [doc] + secs + props


def node_path(n):
    if isinstance(n, BaseDocument):
        return '<document>'
    parts = []
    x = n
    while x is not None and not isinstance(x, BaseDocument):
        parts.insert(0, ('%s' if isinstance(x, BaseSection) else ':%s') % x._name)
        x = x._parent
    return '/' + '/'.join(parts).replace('/:', ':')


def kind_of(n):
    return 'document' if isinstance(n, BaseDocument) else ('section' if isinstance(n, BaseSection) else 'property')


def raw_snap(o, ids=True):
    """Non-frozen dict snapshot without identities."""
    if isinstance(o, BaseDocument):
        return h.snap_doc(o, ids, False)
    if isinstance(o, BaseSection):
        return h.snap_sec(o, ids, False)
    return h.snap_prop(o, ids, False)


def plain_snap(o, ids=True, parent=True):
    """h.snap without the final freeze (dicts / tuples, compared with ==): the same information, cheaper."""
    if isinstance(o, BaseDocument):
        return h.snap_doc(o, ids, parent)
    if isinstance(o, BaseSection):
        return h.snap_sec(o, ids, parent)
    if isinstance(o, BaseProperty):
        return h.snap_prop(o, ids, parent)
    return h.snap(o)


def snap_diff(a, b):
    """None when the two snapshots (plain or frozen) are equal, else the first difference as text."""
    if a == b:
        return None
    return h.diff(h.freeze(a), h.freeze(b)) or 'snapshots differ'


def without_children(d):
    d = dict(d)
    if 'sections' in d:
        d['sections'] = ()
    if 'props' in d:
        d['props'] = ()
    return d


def identities(root):
    """id -> label of every mutable object that makes up the tree below root."""
    out = {}

    def rec(o):
        out[id(o)] = '%s %s' % (kind_of(o), node_path(o))
        if isinstance(o, (BaseDocument, BaseSection)):
            out[id(o._sections)] = 'section list of %s' % node_path(o)
            for c in list.__iter__(o._sections):
                rec(c)
        if isinstance(o, BaseSection):
            out[id(o._props)] = 'property list of %s' % node_path(o)
            for c in list.__iter__(o._props):
                rec(c)
        if isinstance(o, BaseProperty):
            out[id(o._values)] = 'value list of %s' % node_path(o)
            for k, v in enumerate(o._values):
                if isinstance(v, (list, dict, set)):
                    out[id(v)] = 'nested value %d of %s' % (k, node_path(o))
    rec(root)
    return out


def id_list(root):
    """ids in a fixed traversal order (positional comparison between original and copy)."""
    out = []

    def rec(o):
        out.append(o._id)
        if isinstance(o, (BaseDocument, BaseSection)):
            for c in list.__iter__(o._sections):
                rec(c)
        if isinstance(o, BaseSection):
            for c in list.__iter__(o._props):
                rec(c)
    rec(root)
    return out


def root_of(n):
    while getattr(n, '_parent', None) is not None:
        n = n._parent
    return n


def valid_uuid(x):
    try:
        return isinstance(x, str) and str(uuid.UUID(x)) == x
    except Exception:
        return False


# ---------------------------------------------------------------------------------------------
# run_clone
# ---------------------------------------------------------------------------------------------

def own_attributes(o):
    d = raw_snap(o, ids=False)
    d.pop('sections', None)
    d.pop('props', None)
    return d


def locate_difference(orig, copy, children, classes):
    """Stable label of the first place where the copy differs from the original (ids ignored), comparing object by
    object in list order: which attribute of which kind of object, and how the name of that object relates to ids."""
    def rec(o, c, top):
        where = 'copy root' if top else 'descendant'
        if kind_of(o) != kind_of(c):
            return 'kind of %s' % where
        a, b = own_attributes(o), own_attributes(c)
        for f in sorted(a):
            if a[f] != b.get(f, '<missing>'):
                return '%s of %s %s with %s' % (f.lstrip('_'), where, kind_of(o), classes.get(id(o), 'n/a'))
        if top and not children:
            return None
        for attr, what in (('_sections', 'sections'), ('_props', 'properties')):
            lo = list(list.__iter__(getattr(o, attr, [])))
            lc = list(list.__iter__(getattr(c, attr, [])))
            if len(lo) != len(lc):
                return 'number of %s of %s %s' % (what, where, kind_of(o))
            for x, y in zip(lo, lc):
                r = rec(x, y, False)
                if r:
                    return r
        return None
    return rec(orig, copy, True) or 'other'


def pairs(orig, copy):
    """(original container, copy container) pairs, position by position, as long as the shapes agree."""
    out = []

    def rec(o, c):
        if isinstance(o, BaseProperty) or kind_of(o) != kind_of(c):
            return
        out.append((o, c))
        lo, lc = list(list.__iter__(o._sections)), list(list.__iter__(c._sections))
        if len(lo) == len(lc):
            for x, y in zip(lo, lc):
                rec(x, y)
    rec(orig, copy)
    return out


def lcall(fn, *a, **kw):
    """h.call without silencing (used inside one enclosing h.quiet(): entering it per call is expensive)."""
    try:
        return 'ret', fn(*a, **kw)
    except Exception as exc:       # noqa
        return 'exc', exc


def lookup_problems(orig, copy, classes, names=None):
    """Every sub-object of the copy must be found, through the public name lookup of the copy, under the name the
    corresponding object has in the original, and what is found must have the content of that original object.
    -> [(feature, detail)]"""
    out = []
    for o, c in pairs(orig, copy):
        for attr, pub, what in (('_sections', 'sections', 'section'), ('_props', 'properties', 'property')):
            if not hasattr(o, attr):
                continue
            for child in list.__iter__(getattr(o, attr)):
                nm = names[id(child)] if names is not None else child._name
                cls = '%s with %s' % (what, classes.get(id(child), 'n/a'))
                kind, lst = lcall(getattr, c, pub)
                if kind == 'exc':
                    out.append((cls, 'copy.%s raised %r' % (pub, lst)))
                    continue
                kind, found = lcall(lambda: lst[nm])
                if kind == 'exc':
                    out.append((cls, 'looking up %r (name in the original) among the %s of the copied %s raised %r; '
                                     'names there: %r' % (nm, pub, kind_of(c), found,
                                                          [x._name for x in list.__iter__(getattr(c, attr))])))
                    continue
                if not any(found is x for x in list.__iter__(getattr(c, attr))):
                    out.append((cls, 'lookup of %r returned %r which is not a child of the copied %s' % (nm, found, kind_of(c))))
                    continue
                kind, pubname = lcall(getattr, found, 'name')
                if kind == 'exc' or pubname != nm:
                    out.append((cls, 'object found under %r reports name %r' % (nm, pubname)))
                d = snap_diff(own_attributes(child), own_attributes(found))
                if d:
                    out.append((cls, 'object found under %r differs from the original object of that name: %s' % (nm, d)))
                kind, isin = lcall(lambda: nm in lst)
                if kind == 'exc' or isin is not True:
                    out.append((cls, '%r in copy.%s gave %r' % (nm, pub, isin)))
    return out


PUBLIC_ATTRS = {
    'document': ('author', 'version', 'date', 'repository'),
    'section': ('type', 'definition', 'reference', 'repository', 'link', 'include', 'sec_cardinality', 'prop_cardinality'),
    'property': ('dtype', 'unit', 'uncertainty', 'reference', 'definition', 'dependency', 'dependency_value',
                 'value_origin', 'val_cardinality', 'values'),
}


def object_pairs(orig, copy, children=True):
    """(original object, copied object, 'copy root' | 'descendant') position by position, Properties included, as
    far as kinds and list lengths agree."""
    out = []

    def rec(o, c, top):
        if kind_of(o) != kind_of(c):
            return
        out.append((o, c, 'copy root' if top else 'descendant'))
        if top and not children:
            return
        for attr in ('_sections', '_props'):
            lo = list(list.__iter__(getattr(o, attr, [])))
            lc = list(list.__iter__(getattr(c, attr, [])))
            if len(lo) == len(lc):
                for x, y in zip(lo, lc):
                    rec(x, y, False)
    rec(orig, copy, True)
    return out


def public_problems(triples, inh=None, ids=False):
    """What the copy reports through its public getters must be what the original object itself reports (its OWN
    value: a copy of an object that merely inherits a value does not own one).  (called inside h.quiet())
    -> [(feature, detail)], the first problem per feature."""
    out, seen = [], set()
    inh = inh or {}
    for o, c, where in triples:
        k = kind_of(o)
        for attr in PUBLIC_ATTRS[k] + (('id',) if ids else ()):
            kind, want = lcall(getattr, o, attr)
            if kind == 'exc':
                continue
            kind, got = lcall(getattr, c, attr)
            if kind == 'ret' and h.snap(want) == h.snap(got):
                continue
            feature = '%s of %s %s' % (attr, where, k)
            if attr == 'repository':
                feature += ' (%s)' % inh.get(id(o), 'none')
            if feature not in seen:
                seen.add(feature)
                out.append((feature, '%s.%s of the copy is %r; the original %s reports %r (private field of the original: %r)'
                            % (k, attr, got, node_path(o), want, getattr(o, '_' + attr, '<n/a>'))))
    return out


def effective_problems(orig, copy, children, inh=None, above=None, host=''):
    """get_repository() of every Document / Section of the copy: the value the corresponding original object owns,
    else that of the nearest copied object above it that owns one, else `above` (what applies where the copy was put;
    None for a detached copy).  (called inside h.quiet())  -> [(feature, detail)]"""
    out, seen = [], set()
    inh = inh or {}
    if isinstance(orig, BaseProperty):
        return out

    def rec(o, c, inherited, top):
        if kind_of(o) != kind_of(c):
            return
        eff = o._repository if o._repository is not None else inherited
        kind, got = lcall(c.get_repository)
        if kind == 'exc' or got != eff:
            feature = '%s%s %s (%s)' % (host, 'copy root' if top else 'descendant', kind_of(o), inh.get(id(o), 'none'))
            if feature not in seen:
                seen.add(feature)
                out.append((feature, 'get_repository() of the copy of %s gives %r; the original owns %r and the nearest '
                                     'definer above it in the copy gives %r' % (node_path(o), got, o._repository, inherited)))
        if top and not children:
            return
        lo, lc = list(list.__iter__(o._sections)), list(list.__iter__(c._sections))
        if len(lo) == len(lc):
            for x, y in zip(lo, lc):
                rec(x, y, eff, False)
    rec(orig, copy, above, True)
    return out


def judge_clone(col, name, orig, copy, children, keep_id, witness, via='clone', classes=None, names=None, inh=None):
    """All clauses of the clone contract for one (original, copy).
    names: id(obj) -> name of every object of the original recorded BEFORE the call (default: read now).
    inh: id(obj) -> inherit_classes label (only for labelling failures)."""
    k = kind_of(orig)
    base = {'kind': k, 'children': children, 'keep_id': keep_id}
    if classes is None:
        classes = name_classes(orig)

    def fail(clause, feature, detail):
        col.fail(check='%s/%s' % (name, clause), cls={'clause': clause, 'feature': feature + value_suffix(witness)},
                 witness=dict(witness, **base), detail=detail)

    if not isinstance(copy, type(orig)):
        fail('returns-same-kind', k, 'observed %r; contract requires a %s' % (copy, type(orig).__name__))
        return
    if getattr(copy, '_parent', None) is not None or copy.parent is not None:
        fail('detached', k, 'copy reports parent %r; contract requires None' % (copy.parent,))
    # equal, ids ignored
    exp = raw_snap(orig, ids=False)
    if not children:
        exp = without_children(exp)
    d = snap_diff(exp, raw_snap(copy, ids=False))
    if d:
        fail('equal-content' if children else 'equal-attributes',
             '%s: %s' % (k, locate_difference(orig, copy, children, classes)),
             'first difference original vs copy: %s' % d)
    # the same through the public getters, object by object; and the repository that applies inside the detached copy
    with h.quiet():
        pub = public_problems(object_pairs(orig, copy, children), inh)
        eff = effective_problems(orig, copy, children, inh)
    for feature, detail in pub:
        fail('public-attributes-equal', '%s: %s' % (k, feature), detail)
    for feature, detail in eff:
        fail('applicable-repository', '%s: %s' % (k, feature), detail)
    # the public name of the copy is the name of the original
    if k != 'document':
        want = names[id(orig)] if names is not None else orig._name
        kind, got = h.call(getattr, copy, 'name')
        if kind == 'exc' or got != want:
            fail('name-kept', '%s with %s' % (k, classes.get(id(orig), 'n/a')),
                 'copy.name is %r; the original is called %r' % (got, want))
    if not children:
        n = len(getattr(copy, '_sections', ())) + len(getattr(copy, '_props', ()))
        if n:
            fail('no-children', k, 'copy has %d children although children=False' % n)
    else:
        seen = set()
        with h.quiet():
            found_problems = lookup_problems(orig, copy, classes, names)
        for feature, detail in found_problems:
            if feature not in seen:
                seen.add(feature)
                fail('lookup-by-original-name', '%s: %s' % (k, feature), detail)
    # every sub-object new
    shared = set(identities(orig)) & set(identities(copy))
    if shared:
        labels = identities(orig)
        what = sorted(labels[i] for i in shared)
        feat = sorted({''.join(ch for ch in w.split(' of ')[0].split(' /')[0].split(' <')[0] if not ch.isdigit()).strip()
                       for w in what})
        fail('sub-objects-new', '%s shares %s' % (k, '+'.join(feat)), 'objects shared with the original: %r' % (what[:6],))
    # ids
    oi, ci = id_list(orig), id_list(copy)
    if children and keep_id and oi != ci:
        fail('ids-kept', k, 'ids differ although keep_id=True: %r vs %r' % (oi[:4], ci[:4]))
    if not children and keep_id and ci[:1] != oi[:1]:
        fail('ids-kept', k, 'id differs although keep_id=True: %r vs %r' % (oi[:1], ci[:1]))
    if not keep_id:
        every = set(id_list(root_of(orig))) | set(oi)
        stale = [i for i in ci if i in every]
        if stale:
            where = 'root-id' if (ci[0] in every and len(stale) == 1) else 'descendant-ids'
            fail('ids-fresh', '%s %s' % (k, where),
                 '%d of %d ids in the copy are ids of the original (%r)' % (len(stale), len(ci), stale[:3]))
        if len(set(ci)) != len(ci):
            fail('ids-fresh', '%s duplicate-ids-in-copy' % k, 'ids in copy not pairwise distinct: %r' % (ci,))
    if not all(valid_uuid(i) for i in ci):
        fail('ids-wellformed', k, 'copy has a malformed id: %r' % (ci,))


def names_of(root):
    """id(obj) -> name, for every Section / Property of the tree (recorded before a call)."""
    secs, props = ([], []) if isinstance(root, BaseProperty) else h.walk(root)
    objs = secs + props + ([root] if not isinstance(root, BaseDocument) else [])
    return {id(o): o._name for o in objs}


def clone_call(node, children, keep_id):
    if isinstance(node, BaseProperty):
        return h.call(node.clone, keep_id=keep_id)
    return h.call(node.clone, children=children, keep_id=keep_id)


MOVE_HOSTS = ['document-without-repository', 'document-with-other-repository', 'section-with-other-repository',
              'section-without-repository-below-document-with-other-repository']


def moved_copies(col, name, node, children, keep_id, witness, inh, key, hosts=None):
    """A clone of a Section put into ANOTHER document: the repository that applies to every Section of it there is
    what the corresponding original Section owns, else what the nearest copied Section above owns, else what applies at
    the place it was put - never something it merely inherited at the place it was copied from."""
    for host in hosts or MOVE_HOSTS:
        other = INH_URLS[-1]
        with h.quiet():
            if host == 'document-without-repository':
                place = odml.Document(author='host')
                above = None
            elif host == 'document-with-other-repository':
                place = odml.Document(author='host')
                place._repository = other
                above = other
            else:
                hdoc = odml.Document(author='host')
                place = odml.Section(name='host-section', type='t', parent=hdoc)
                if host == 'section-with-other-repository':
                    hdoc._repository = INH_URLS[-2]
                    place._repository = other
                else:
                    hdoc._repository = other
                above = other
        kind, copy = clone_call(node, children, keep_id)
        if kind == 'exc' or not isinstance(copy, BaseSection):
            continue                        # reported by the clauses of the clone itself
        kind, _ = h.call(place.append, copy)
        if kind == 'exc' or copy._parent is not place:
            continue                        # placing is not the subject here
        col.case(cls_key=key + ('moved', host))
        with h.quiet():
            probs = effective_problems(node, copy, children, inh, above=above, host=host + ': ')
        for feature, detail in probs:
            col.fail(check=name + '/moved-copy-applicable-repository',
                     cls={'clause': 'moved-copy-applicable-repository', 'feature': 'section: %s' % feature},
                     witness=dict(witness, kind='section', children=children, keep_id=keep_id, host=host), detail=detail)


@tidy
def run_clone(tier, seed):
    name = 'C11.clone'
    col = Col(name, rule='every node (Document, Section, Property) of every generated document as clone root x children in '
                         '{True, False} x keep_id in {True, False}, and the copy of a copy; documents: all forest shapes up '
                         'to N Sections x random rich fillings, documents with a resolved link, and the naming dimension '
                         '(every placement shape x every position/depth x 18 relations between the name of an object and '
                         'ids: unnamed in 6 ways, own id in other spellings, foreign uuids, id of another object; uniform; '
                         'random mixtures; the same loaded from XML/JSON/YAML files), and the relation dimension (every '
                         'position/depth x the object shares its id - set through oid= or new_id(oid) - / its name / its '
                         'attributes with the Document, its parent, an ancestor, a sibling, a child, a descendant, an '
                         'object of another branch; uniform, e.g. all ids of the document equal; clones made with every '
                         'flag combination grafted below / below a descendant of / next to / above their original and in '
                         'another branch; mixtures with the naming modes; the same loaded from files with repeated ids); '
                         'distinct = (node kind, flags, has children, has nested values, depth, name/id relation of the '
                         'node, id-related names below, linked, loaded, with whom the node shares its id, ids repeated '
                         'below the node, content relation of the node, generation, how the repository applying to the node '
                         'and to the Sections below relates to what they own, way it was set, place a clone was moved to); '
                         'inherited-attribute dimension: every subset of levels {Document, each Section} defines a repository '
                         '(different URLs; Document and one Section the same URL), set by setter / field / loaded from file; '
                         'public getters of every copied object compared with the original object; clones of Sections moved '
                         'into 4 kinds of places of another document; value-content dimension: every dtype x its extreme / '
                         'unusual legitimate values (VALUE_CASES) x entered as text / native x alone / among ordinary values x '
                         'held by the copied Section / a Section above it (distinct += value class, way entered, among, place)',
              exhaustive=False)
    for wit, make in doc_makers(tier, seed):
        doc = make()
        classes = name_classes(doc)
        idc, cont = id_classes(doc), content_classes(doc)
        inh = inherit_classes(doc) if wit.get('inherit') else {}
        before_doc = plain_snap(doc)    # the whole document (it contains the node) must never change
        for node in all_nodes(doc):
            k = kind_of(node)
            flagsets = [(True, True), (True, False)] if k == 'property' else \
                [(True, True), (True, False), (False, True), (False, False)]
            below = [] if k == 'property' else [x for l in h.walk(node) for x in l]
            ids_below = [x._id for x in [node] + below]
            for children, keep_id in flagsets:
                names = names_of(node)
                w = dict(wit, node=node_path(node))
                nested = k == 'property' and any(isinstance(v, list) for v in node._values)
                haskids = bool(getattr(node, '_sections', None)) or bool(getattr(node, '_props', None))
                key = (k, children, keep_id, haskids, nested, wit['linked'], depth_of(node),
                       classes.get(id(node), 'n/a'), subtree_trait(node, classes), bool(wit['loaded']),
                       idc[id(node)], len(set(ids_below)) < len(ids_below),
                       any(idc[id(x)] != 'unique' for x in below), cont.get(id(node), 'n/a'),
                       inh.get(id(node), 'none'), tuple(sorted({inh[id(x)] for x in below if id(x) in inh})),
                       wit.get('inherit', '').rsplit(' ', 1)[-1]) + value_key(wit)
                col.case(cls_key=key + (1,),
                         sample='%s %s children=%s keep_id=%s' % (wit['shape'], node_path(node), children, keep_id))
                kind, copy = clone_call(node, children, keep_id)
                if kind == 'exc':
                    col.fail(check=name + '/returns',
                             cls={'clause': 'returns', 'feature': '%s %s' % (k, type(copy).__name__) + value_suffix(wit)},
                             witness=dict(w, children=children, keep_id=keep_id), detail='clone raised %r' % (copy,))
                else:
                    judge_clone(col, name, node, copy, children, keep_id, w, classes=classes, names=names, inh=inh)
                    if inh and k == 'section':
                        # quick tier: all places for the plain clone, one place (rotating) for the other flags
                        moved_copies(col, name, node, children, keep_id, w, inh, key,
                                     hosts=None if (tier != 'quick' or (children and not keep_id)) else
                                     [MOVE_HOSTS[(depth_of(node) + 2 * children + keep_id) % len(MOVE_HOSTS)]])
                d = snap_diff(before_doc, plain_snap(doc))
                if d:
                    col.fail(check=name + '/original-untouched', cls={'clause': 'original-untouched', 'feature': k},
                             witness=dict(w, children=children, keep_id=keep_id),
                             detail='the call changed the original: %s' % d)
                    before_doc = plain_snap(doc)
                # the copy of a copy (the copy is a detached tree of its own; its names still refer to ids of the first tree)
                if kind == 'ret' and isinstance(copy, type(node)) and (children or k == 'property'):
                    col.case(cls_key=key + (2,))
                    before_copy = plain_snap(copy)
                    names2 = names_of(copy)
                    classes2 = name_classes(copy)
                    kind2, copy2 = clone_call(copy, children, keep_id)
                    w2 = dict(w, generation='copy of the copy')
                    if kind2 == 'exc':
                        col.fail(check=name + '/returns',
                                 cls={'clause': 'returns', 'feature': '%s %s' % (k, type(copy2).__name__) + value_suffix(wit)},
                                 witness=dict(w2, children=children, keep_id=keep_id), detail='clone of the copy raised %r' % (copy2,))
                    else:
                        judge_clone(col, name, copy, copy2, children, keep_id, w2, classes=classes2, names=names2,
                                    inh=inherit_classes(copy) if inh and k != 'property' else None)
                    d = snap_diff(before_copy, plain_snap(copy)) or snap_diff(before_doc, plain_snap(doc))
                    if d:
                        col.fail(check=name + '/original-untouched', cls={'clause': 'original-untouched', 'feature': k},
                                 witness=dict(w2, children=children, keep_id=keep_id),
                                 detail='cloning the copy changed the copy or the first original: %s' % d)
                        before_doc = plain_snap(doc)
    _templates_part(col, name, tier, seed)
    cleanup_work()
    return col.result()


def _templates_part(col, name, tier, seed):
    """TemplateHandler.clone_section(url, name, children, keep_id) is the same contract on a loaded template."""
    import odml.templates as templates
    tdir = os.path.join(WORK, 'tpl-%d' % os.getpid())
    shutil.rmtree(tdir, ignore_errors=True)
    os.makedirs(os.path.join(tdir, 'tmp'))
    old_tmp = tempfile.tempdir
    tempfile.tempdir = os.path.join(tdir, 'tmp')
    try:
        makers = [m for m in doc_makers(tier, seed, max_secs=3, per_shape=1, naming='reduced', relations='reduced',
                                          inherit='reduced', values=False)
                  if not m[0]['linked'] and not m[0]['loaded']]
        for n, (wit, make) in enumerate(makers):
            doc = make()
            if not doc._sections:
                continue
            fname = os.path.join(tdir, 'tpl_%d.xml' % n)
            kind, _ = h.call(odml.save, doc, fname, 'XML')
            if kind == 'exc' and wit.get('relations'):
                # refused by the validating writer (repeated ids): such template files exist nevertheless
                from odml.tools.odmlparser import ODMLWriter
                kind, text = h.call(ODMLWriter('XML').to_string, doc)
                if kind == 'ret':
                    with open(fname, 'w', encoding='utf-8') as f:
                        f.write(text)
            if kind == 'exc':
                continue
            url = 'file://' + fname
            handler = templates.TemplateHandler()
            for top in list.__iter__(doc._sections):
                for children in (True, False):
                    for keep_id in (True, False):
                        kind, copy = h.call(handler.clone_section, url, top._name, children, keep_id)
                        w = dict(wit, node='/' + top._name, via='TemplateHandler.clone_section')
                        if kind == 'exc':
                            col.case(cls_key=('template', children, keep_id, bool(top._sections), bool(top._props)))
                            col.fail(check=name + '/returns', cls={'clause': 'returns', 'feature': 'template %s' % type(copy).__name__},
                                     witness=w, detail='clone_section raised %r' % (copy,))
                            continue
                        loaded = handler.get(url)
                        orig = next((s for s in list.__iter__(loaded._sections) if s._name == top._name), None)
                        if orig is None:
                            continue
                        classes = name_classes(loaded)
                        idc = id_classes(loaded)
                        col.case(cls_key=('template', children, keep_id, bool(top._sections), bool(top._props),
                                          classes.get(id(orig), 'n/a'), subtree_trait(orig, classes), idc[id(orig)],
                                          any(idc[id(x)] != 'unique' for l in h.walk(orig) for x in l)))
                        judge_clone(col, name, orig, copy, children, keep_id, w, classes=classes)
            os.remove(fname)
    finally:
        tempfile.tempdir = old_tmp
        shutil.rmtree(tdir, ignore_errors=True)


# ---------------------------------------------------------------------------------------------
# run_export_leaf
# ---------------------------------------------------------------------------------------------

def expected_leaf(chain):
    """Snapshot (dict) of the chain root..object with all Properties of each Section on it, original ids."""
    def rec(i):
        d = raw_snap(chain[i], ids=True)
        d['sections'] = (rec(i + 1),) if i + 1 < len(chain) else ()
        return d
    return rec(0)


def chain_lookup_problems(chain, node, res, classes):
    """Walk the result from its root by the names of the original chain (public lookups); every Property of every
    Section on the chain must be found under its original name with its original content and id.
    (called inside h.quiet())  -> [(feature, detail)]"""
    out = []

    def props_found(sec, found):
        for p in list.__iter__(sec._props):
            pcls = 'property with %s' % classes.get(id(p), 'n/a')
            kind, fp = lcall(lambda: found.properties[p._name])
            if kind == 'exc' or not isinstance(fp, BaseProperty):
                out.append((pcls, 'looking up Property %r of chain Section %r in the result gave %r' % (p._name, sec._name, fp)))
                continue
            d = snap_diff(raw_snap(p, ids=True), raw_snap(fp, ids=True))
            if d or fp.name != p._name:
                out.append((pcls, 'Property %r found in the result differs from the original: %s' % (p._name, d)))

    cur = res
    if isinstance(chain[0], BaseSection):           # detached tree: the root of the chain is a Section
        if not isinstance(res, BaseSection):
            return out
        props_found(chain[0], res)
    for sec in chain[1:]:
        cls = 'section with %s' % classes.get(id(sec), 'n/a')
        kind, found = lcall(lambda: cur.sections[sec._name])
        if kind == 'exc' or not isinstance(found, BaseSection):
            out.append((cls, 'looking up chain Section %r in the result gave %r' % (sec._name, found)))
            return out
        if found.name != sec._name or found.id != sec._id:
            out.append((cls, 'chain Section %r / id %r is %r / %r in the result' % (sec._name, sec._id, found.name, found.id)))
        props_found(sec, found)
        cur = found
    return out


def chain_id_class(chain, last):
    """How the ids on the chain root..object relate: all different / the id of the exported Section occurs again
    above it / only other ids on the chain repeat (Properties of the chain Sections included)."""
    above = [c._id for c in chain[:-1]] + [p._id for c in chain[:-1] if isinstance(c, BaseSection)
                                          for p in list.__iter__(c._props)]
    if last._id in above:
        return 'id of the exported Section repeated above it'
    every = above + [last._id] + [p._id for p in list.__iter__(last._props)]
    return 'other ids repeated on the chain' if len(set(every)) < len(every) else 'ids on the chain unique'


def locate_chain_difference(chain, res):
    """Stable label of the first place where the result differs from the expected chain, walking down level by level."""
    cur = res
    for depth, exp in enumerate(chain):
        where = 'root' if depth == 0 else ('exported Section' if depth == len(chain) - 1 else 'Section on the chain')
        if kind_of(cur) != kind_of(exp):
            return 'kind of %s' % where
        a, b = own_attributes(exp), own_attributes(cur)
        a.pop('props', None)
        b.pop('props', None)
        for f in sorted(a):
            if a[f] != b.get(f, '<missing>'):
                return '%s of %s' % (f.lstrip('_'), where)
        if cur._id != exp._id:
            return 'id of %s' % where
        if isinstance(exp, BaseSection):
            pe = [h.snap(p, ids=True, parent=False) for p in list.__iter__(exp._props)]
            pc = [h.snap(p, ids=True, parent=False) for p in list.__iter__(cur._props)]
            if len(pe) != len(pc):
                return 'number of Properties of %s' % where
            if pe != pc:
                return 'a Property of %s' % where
        subs = list(list.__iter__(cur._sections))
        want = 0 if depth == len(chain) - 1 else 1
        if len(subs) != want:
            if len(subs) < want:
                return 'chain cut, the lower levels are missing'
            return '%s has %d sub-Sections instead of %d' % (where, len(subs), want)
        if want:
            cur = subs[0]
    return 'other'


def chain_triples(chain, res):
    """(original, copied object, where) along the chain, with the Properties of every Section on it, position by
    position as far as the result has the shape of the chain."""
    out = []
    cur = res
    for depth, exp in enumerate(chain):
        if cur is None or kind_of(cur) != kind_of(exp):
            break
        where = 'root' if depth == 0 else ('exported Section' if depth == len(chain) - 1 else 'Section on the chain')
        out.append((exp, cur, where))
        if isinstance(exp, BaseSection):
            pe, pc = list(list.__iter__(exp._props)), list(list.__iter__(cur._props))
            if len(pe) == len(pc):
                out += [(x, y, 'Property of ' + where) for x, y in zip(pe, pc)]
        subs = list(list.__iter__(cur._sections))
        cur = subs[0] if len(subs) == 1 else None
    return out


def chain_effective_problems(chain, res, inh):
    """get_repository() at every level of the exported chain: what the original object of that level owns, else what
    the nearest level above it on the chain owns (the chain starts at the root: the same as in the original)."""
    out = []
    inherited = None
    for exp, cur, where in chain_triples(chain, res):
        if isinstance(exp, BaseProperty):
            continue
        eff = exp._repository if exp._repository is not None else inherited
        kind, got = lcall(cur.get_repository)
        if kind == 'exc' or got != eff:
            out.append(('%s (%s)' % (where, inh.get(id(exp), 'none')),
                        'get_repository() of the copy of %s gives %r; the original owns %r, the levels above give %r'
                        % (node_path(exp), got, exp._repository, inherited)))
            break
        inherited = eff
    return out


@tidy
def run_export_leaf(tier, seed):
    name = 'C11.export_leaf'
    col = Col(name, rule='every Section and every Property of every generated document (same documents as C11.clone: '
                         'naming dimension, relation dimension - ids / names / attributes / content shared with the '
                         'Document, the parent, an ancestor, a sibling, a child, a descendant, another branch; clones '
                         'grafted below / next to / above their original - and documents loaded from files) as export '
                         'root, in the document and (relation documents, a sample of the others) in a top-level Section '
                         'detached from it; distinct = (root kind, node kind, depth, siblings present, properties on '
                         'the chain, name/id relation of the node, id-related names on the chain, linked, loaded, id '
                         'relation of node and exported Section, ids repeated on the chain, content relation, own / '
                         'inherited repository at every level of the chain - inherited-attribute dimension as in C11.clone; '
                         'value class, way entered, among ordinary values, place - value-content dimension as in C11.clone)',
              exhaustive=False)

    def cases(root, wit):
        classes = name_classes(root)
        idc, cont = id_classes(root), content_classes(root)
        inh = inherit_classes(root) if wit.get('inherit') else {}
        secs, props = h.walk(root)
        if isinstance(root, BaseSection):
            secs = [root] + secs
        rootkind = kind_of(root)
        before = plain_snap(root)       # the whole tree must never change
        for node in secs + props:
            k = kind_of(node)
            last = node if k == 'section' else node._parent
            chain = []
            x = last
            while x is not None:
                chain.insert(0, x)
                x = getattr(x, '_parent', None)
            exp = expected_leaf(chain)
            w = dict(wit, node=node_path(node), root=rootkind)
            on_chain = [c for c in chain[1:]] + [p for c in chain[1:] for p in list.__iter__(c._props)]
            ids_on_chain = chain_id_class(chain, last)
            col.case(cls_key=(rootkind, k, len(chain), any(len(c._sections) > 1 for c in chain),
                              sum(len(getattr(c, '_props', ())) for c in chain) > 0, wit['linked'],
                              classes.get(id(node), 'n/a'),
                              any(classes.get(id(o)) not in ('plain-name', 'odd-name') for o in on_chain if o is not node),
                              bool(wit['loaded']), idc[id(node)], idc[id(last)], ids_on_chain,
                              cont.get(id(node), 'n/a'), cont.get(id(last), 'n/a'),
                              tuple(inh.get(id(c), 'none') for c in chain) if inh else (),
                              wit.get('inherit', '').rsplit(' ', 1)[-1]) + value_key(wit),
                     sample='%s %s' % (wit['shape'], node_path(node)))
            kind, res = h.call(node.export_leaf)
            if kind == 'exc':
                col.fail(check=name + '/returns',
                         cls={'clause': 'returns', 'feature': '%s %s' % (k, type(res).__name__) + value_suffix(wit)},
                         witness=w, detail='export_leaf raised %r' % (res,))
                continue
            if kind_of(res) != rootkind or not isinstance(res, (BaseDocument, BaseSection)):
                col.fail(check=name + '/root-is-document', cls={'clause': 'root-is-document', 'feature': k}, witness=w,
                         detail='observed %r; the root of the chain is the %s' % (res, rootkind))
                continue
            d = snap_diff(exp, raw_snap(res, ids=True))
            if d:
                col.fail(check=name + '/exact-chain',
                         cls={'clause': 'exact-chain',
                              'feature': '%s: %s; %s' % (k, locate_chain_difference(chain, res), ids_on_chain) + value_suffix(wit)},
                         witness=w, detail='first difference expected chain vs result: %s' % d)
            with h.quiet():
                pub = public_problems(chain_triples(chain, res), inh, ids=True)
                eff = chain_effective_problems(chain, res, inh)
            for feature, detail in pub:
                col.fail(check=name + '/public-attributes-equal',
                         cls={'clause': 'public-attributes-equal', 'feature': '%s: %s' % (k, feature) + value_suffix(wit)},
                         witness=w, detail=detail)
            for feature, detail in eff:
                col.fail(check=name + '/applicable-repository',
                         cls={'clause': 'applicable-repository', 'feature': '%s: %s' % (k, feature)}, witness=w, detail=detail)
            seen = set()
            with h.quiet():
                found_problems = chain_lookup_problems(chain, node, res, classes)
            for feature, detail in found_problems:
                if feature not in seen:
                    seen.add(feature)
                    col.fail(check=name + '/lookup-by-original-name',
                             cls={'clause': 'lookup-by-original-name', 'feature': '%s: %s' % (k, feature) + value_suffix(wit)},
                             witness=w, detail=detail)
            shared = set(identities(root)) & set(identities(res))
            if shared:
                labels = identities(root)
                col.fail(check=name + '/is-a-copy', cls={'clause': 'is-a-copy', 'feature': k}, witness=w,
                         detail='objects shared with the original: %r' % (sorted(labels[i] for i in shared)[:6],))
            probs = h.wellformed(res)
            if res.parent is not None or probs:
                col.fail(check=name + '/detached-wellformed', cls={'clause': 'detached-wellformed', 'feature': k}, witness=w,
                         detail='result not a well-formed detached tree: %r' % (probs[:3],))
            d = snap_diff(before, plain_snap(root))
            if d:
                col.fail(check=name + '/original-untouched', cls={'clause': 'original-untouched', 'feature': k}, witness=w,
                         detail='the call changed the original: %s' % d)
                before = plain_snap(root)

    for n, (wit, make) in enumerate(doc_makers(tier, seed)):
        cases(make(), wit)
        # the same in a tree whose root is a Section: every top-level Section taken out of a fresh build of the document
        if n % (2 if wit.get('relations') else 8) == 0 if tier == 'quick' else (wit.get('relations') or n % 2 == 0):
            doc = make()
            for top in list(list.__iter__(doc._sections)):
                h.call(doc.remove, top)
                if top._parent is None:
                    cases(top, wit)
    cleanup_work()
    return col.result()


# ---------------------------------------------------------------------------------------------
# edit operations (public API only); each returns a label or None when not applicable
# ---------------------------------------------------------------------------------------------

NEWVALS = {
    'string': ['n1', 'n2'], 'text': ['nt\n1', 'nt2'], 'int': [41, 42], 'float': [4.5, 5.5], 'boolean': [True, False],
    'date': [dt.date(2021, 2, 3), dt.date(2022, 3, 4)], 'time': [dt.time(1, 2, 3), dt.time(4, 5, 6)],
    'datetime': [dt.datetime(2021, 2, 3, 4, 5, 6), dt.datetime(2022, 1, 1, 1, 1, 1)],
    'url': ['http://n.org/1', 'http://n.org/2'], 'person': ['New, P', 'Other, Q'],
    '2-tuple': ['(7;8)', '(9;0)'], '3-tuple': ['(x;y;z)', '(u;v;w)'],
}


def _props(root):
    if isinstance(root, BaseProperty):
        return [root]
    return h.walk(root)[1]


def _secs(root, with_root=True):
    if isinstance(root, BaseProperty):
        return []
    secs = h.walk(root)[0]
    if with_root and isinstance(root, BaseSection):
        secs = [root] + secs
    return secs


def _holders(root):
    if isinstance(root, BaseProperty):
        return []
    return [root] + h.walk(root)[0]


def _nv(p, rnd):
    return NEWVALS.get(p._dtype, ['n1', 'n2'])


def op_values_set(rnd, root):
    ps = _props(root)
    if not ps:
        return None
    p = rnd.choice(ps)
    h.call(setattr, p, 'values', list(_nv(p, rnd)))
    return 'values-set'


def op_value_append(rnd, root):
    ps = _props(root)
    if not ps:
        return None
    p = rnd.choice(ps)
    h.call(p.append, _nv(p, rnd)[0])
    return 'value-append'


def op_value_extend(rnd, root):
    ps = _props(root)
    if not ps:
        return None
    p = rnd.choice(ps)
    h.call(p.extend, list(_nv(p, rnd)))
    return 'value-extend'


def op_value_setitem(rnd, root):
    ps = [p for p in _props(root) if p._values]
    if not ps:
        return None
    p = rnd.choice(ps)
    h.call(p.__setitem__, 0, _nv(p, rnd)[1])
    return 'value-setitem'


def op_value_remove(rnd, root):
    ps = [p for p in _props(root) if p._values]
    if not ps:
        return None
    p = rnd.choice(ps)
    h.call(p.remove, p._values[0])
    return 'value-remove'


def op_value_insert(rnd, root):
    ps = _props(root)
    if not ps:
        return None
    p = rnd.choice(ps)
    h.call(p.insert, 0, _nv(p, rnd)[1])
    return 'value-insert'


def op_value_inner_edit(rnd, root):
    """Edit in place a nested value reached through the public item access p[i]."""
    ps = [p for p in _props(root) if any(isinstance(v, list) for v in p._values)]
    if not ps:
        return None
    p = rnd.choice(ps)

    def edit():
        v = p[0]
        v[0] = 'EDIT'
        v.append('MORE')
    h.call(edit)
    return 'value-inner-edit'


def op_returned_list_edit(rnd, root):
    ps = [p for p in _props(root)]
    if not ps:
        return None
    p = rnd.choice(ps)

    def edit():
        v = p.values
        v.append('X')
        if v and isinstance(v[0], list):
            v[0].append('Y')
        del v[0]
    h.call(edit)
    return 'returned-list-edit'


def op_dtype(rnd, root):
    ps = _props(root)
    if not ps:
        return None
    p = rnd.choice(ps)
    h.call(setattr, p, 'dtype', rnd.choice(['string', 'text', 'float']))
    return 'dtype-change'


def op_prop_attr(rnd, root):
    ps = _props(root)
    if not ps:
        return None
    p = rnd.choice(ps)
    attr, val = rnd.choice([('unit', 'kg'), ('uncertainty', 9.5), ('definition', 'edited def'), ('reference', 'edited ref'),
                            ('value_origin', 'edited.dat'), ('dependency', 'edep'), ('dependency_value', 'edv'),
                            ('unit', None), ('definition', None)])
    h.call(setattr, p, attr, val)
    return 'property-attribute'


def op_sec_attr(rnd, root):
    ss = _secs(root)
    if not ss:
        return None
    s = rnd.choice(ss)
    attr, val = rnd.choice([('definition', 'edited sdef'), ('reference', 'edited sref'), ('type', 'edited/type'),
                            ('definition', None), ('repository', None)])
    h.call(setattr, s, attr, val)
    return 'section-attribute'


def op_doc_attr(rnd, root):
    if not isinstance(root, BaseDocument):
        return None
    attr, val = rnd.choice([('author', 'edited author'), ('version', 'e9'), ('date', dt.date(2001, 1, 1)), ('author', None)])
    h.call(setattr, root, attr, val)
    return 'document-attribute'


def op_rename(rnd, root):
    cands = _secs(root) + _props(root)
    if not cands:
        return None
    x = rnd.choice(cands)
    h.call(setattr, x, 'name', 'ren%d' % rnd.randrange(1000))
    return 'rename-%s' % kind_of(x)


def op_rename_default(rnd, root):
    """Take the name away: the object is then named after its id."""
    cands = _secs(root) + _props(root)
    if not cands:
        return None
    x = rnd.choice(cands)
    h.call(setattr, x, 'name', rnd.choice([None, '']))
    return 'rename-to-default-%s' % kind_of(x)


def op_rename_to_id(rnd, root):
    """Name an object after the id of another object of the same tree / after its own id in another spelling."""
    cands = _secs(root) + _props(root)
    if not cands:
        return None
    x = rnd.choice(cands)
    other = rnd.choice(_holders(root) + _props(root))
    h.call(setattr, x, 'name', rnd.choice([other._id, x._id.upper(), x._id]))
    return 'rename-to-id-%s' % kind_of(x)


def op_new_id(rnd, root):
    cands = _holders(root) + _props(root)
    x = rnd.choice(cands)
    h.call(x.new_id)
    return 'new-id'


def op_remove_child(rnd, root):
    cands = [c for c in _secs(root, with_root=False) + _props(root) if c is not root and c._parent is not None]
    if not cands:
        return None
    c = rnd.choice(cands)
    if rnd.random() < 0.5:
        h.call(c._parent.remove, c)
    else:
        h.call(setattr, c, 'parent', None)
    return 'remove-%s' % kind_of(c)


def op_add_section(rnd, root):
    hs = _holders(root)
    if not hs:
        return None
    par = rnd.choice(hs)
    nm = 'new%d' % rnd.randrange(1000)
    how = rnd.choice(['ctor', 'append', 'insert', 'create', 'extend'])
    with h.quiet():
        if how == 'ctor':
            h.call(odml.Section, name=nm, type='nt', parent=par)
        elif how == 'append':
            h.call(par.append, odml.Section(name=nm, type='nt'))
        elif how == 'insert':
            h.call(par.insert, 0, odml.Section(name=nm, type='nt'))
        elif how == 'create':
            h.call(par.create_section, nm, 'nt')
        else:
            h.call(par.extend, [odml.Section(name=nm, type='nt'), odml.Section(name=nm + 'x', type='nt')])
    return 'add-section'


def op_add_property(rnd, root):
    ss = _secs(root)
    if not ss:
        return None
    par = rnd.choice(ss)
    nm = 'newp%d' % rnd.randrange(1000)
    how = rnd.choice(['ctor', 'append', 'insert', 'create'])
    with h.quiet():
        if how == 'ctor':
            h.call(odml.Property, name=nm, values=[1, 2], parent=par)
        elif how == 'append':
            h.call(par.append, odml.Property(name=nm, values=['q']))
        elif how == 'insert':
            h.call(par.insert, 0, odml.Property(name=nm, values=[1.5]))
        else:
            h.call(par.create_property, nm, ['(1;2)'], '2-tuple')
    return 'add-property'


def _inside(x, y):
    """x is y or lies below y."""
    while x is not None:
        if x is y:
            return True
        x = getattr(x, '_parent', None)
    return False


def op_move(rnd, root):
    movable = [c for c in _secs(root, with_root=False) if c is not root]
    if not movable:
        return None
    c = rnd.choice(movable)
    targets = [t for t in _holders(root) if not _inside(t, c) and t is not c._parent]
    if not targets:
        return None
    h.call(setattr, c, 'parent', rnd.choice(targets))
    return 'move-section'


def op_move_property(rnd, root):
    ps = [p for p in _props(root) if p is not root]
    ss = _secs(root)
    if not ps or len(ss) < 2:
        return None
    p = rnd.choice(ps)
    h.call(setattr, p, 'parent', rnd.choice([s for s in ss if s is not p._parent]))
    return 'move-property'


def op_reorder(rnd, root):
    cands = [c for c in _secs(root, with_root=False) + _props(root) if c is not root and c._parent is not None]
    if not cands:
        return None
    h.call(rnd.choice(cands).reorder, 0)
    return 'reorder'


def op_sort(rnd, root):
    hs = _holders(root)
    if not hs:
        return None
    x = rnd.choice(hs)
    h.call(x.sections.sort, reverse=True)
    if isinstance(x, BaseSection):
        h.call(x.properties.sort, reverse=True)
    return 'sort-children'


def op_replace_child(rnd, root):
    hs = [x for x in _holders(root) if len(x._sections)]
    if not hs:
        return None
    x = rnd.choice(hs)
    with h.quiet():
        h.call(x.sections.__setitem__, 0, odml.Section(name='repl%d' % rnd.randrange(1000), type='nt'))
    return 'replace-child'


def op_cardinality(rnd, root):
    cands = _secs(root) + _props(root)
    if not cands:
        return None
    x = rnd.choice(cands)
    val = rnd.choice([None, (1, 3), 2, (None, 5), (2, None)])
    if isinstance(x, BaseProperty):
        if rnd.random() < 0.5:
            h.call(setattr, x, 'val_cardinality', val)
        else:
            h.call(x.set_values_cardinality, 1, 4)
    else:
        if rnd.random() < 0.5:
            h.call(setattr, x, rnd.choice(['sec_cardinality', 'prop_cardinality']), val)
        else:
            h.call(rnd.choice([x.set_sections_cardinality, x.set_properties_cardinality]), 0, 7)
    return 'cardinality'


def op_merge(rnd, root):
    ss = _secs(root)
    if not ss:
        return None
    s = rnd.choice(ss)
    with h.quiet():
        other = odml.Section(name='m', type='mt', definition='merged def')
        odml.Property(name='mp', values=[5], parent=other)
        odml.Section(name='msub', type='mt', parent=other)
    h.call(s.merge, other, False)
    return 'merge'


def op_clean(rnd, root):
    if isinstance(root, BaseProperty):
        return None
    h.call(root.clean)
    return 'clean'


def op_repository(rnd, root):
    """Define / re-define / take away the repository of the Document or a Section (public setter; the URLs are in the
    terminology cache).  Only used on the documents of the inherited-attribute dimension."""
    cands = _secs(root) + ([root] if isinstance(root, BaseDocument) else [])
    if not cands:
        return None
    install_repositories()
    x = rnd.choice(cands)
    h.call(setattr, x, 'repository', rnd.choice(INH_URLS[3:] + [None]))
    return 'repository-%s-attribute' % kind_of(x)


OPS = [op_values_set, op_value_append, op_value_extend, op_value_setitem, op_value_remove, op_value_insert,
       op_value_inner_edit, op_returned_list_edit, op_dtype, op_prop_attr, op_sec_attr, op_doc_attr, op_rename,
       op_rename_default, op_rename_to_id, op_new_id, op_remove_child, op_add_section, op_add_property, op_move, op_move_property, op_reorder, op_sort,
       op_replace_child, op_cardinality, op_merge, op_clean]


def edit_sequence(rnd, target, observed, length, ops=None):
    """Apply `length` random edits to the tree `target`; after each one `observed()` must be unchanged.
    Returns (labels applied, first difference or None)."""
    before = observed()
    labels = []
    for _ in range(length):
        for _try in range(6):
            lab = rnd.choice(ops or OPS)(rnd, target)
            if lab:
                break
        else:
            break
        labels.append(lab)
        d = snap_diff(before, observed())
        if d:
            return labels, d
    return labels, None


def every_op_once(rnd, target, observed, first=(), ops=None):
    """Apply every applicable operation once (the ones in `first`, then the rest in random order);
    `observed()` must stay unchanged."""
    before = observed()
    labels = []
    ops = [o for o in (ops or OPS) if o not in first]
    rnd.shuffle(ops)
    ops = list(first) + ops
    for op in ops:
        lab = op(rnd, target)
        if not lab:
            continue
        labels.append(lab)
        d = snap_diff(before, observed())
        if d:
            return labels, d
    return labels, None


# ---------------------------------------------------------------------------------------------
# run_independence
# ---------------------------------------------------------------------------------------------

def _index_of(doc, node):
    nodes = all_nodes(doc)
    return next(i for i, n in enumerate(nodes) if n is node)


@tidy
def run_independence(tier, seed):
    name = 'C11.independence'
    col = Col(name, rule='(way the copy was obtained: clone x flags | export_leaf | list returned by values | list '
                         'passed as values (setter, constructor)) x node x direction (edit copy / edit original) x '
                         'random edit sequence drawn from 27 operations (value edits, attribute edits, renames incl. taking the name away and naming after an id, new ids, '
                         'add/remove/move/reorder/replace children, cardinalities, merge, clean), checked after every '
                         'edit; documents as in C11.clone with a reduced naming dimension and a reduced relation dimension '
                         '(ids / attributes shared with parent, ancestor, sibling, child, other branch, Document; clones '
                         'grafted into the document of their original; quick tier: of these documents only the Document '
                         'and the related objects as copy root); distinct = (way, node kind, direction, has nested values, '
                         'name/id relation of the node, loaded, with whom the node shares its id, repeated ids in the '
                         'document, content relation of the node, own / inherited repository of the node); documents of '
                         'the inherited-attribute dimension: additional edit = define / re-define / remove a repository at '
                         'any level, observed = private state AND get_repository() of every object of the other tree; '
                         'value-content dimension as in C11.clone (quick tier: the Property holding the value and the Sections '
                         'above it as copy root), and every such value list handed out by / handed in to `values`',
              exhaustive=False)
    rnd_plain = random.Random('c11-ind-%s' % seed)
    rnd_inh = random.Random('c11-ind-inh-%s' % seed)    # own stream: the draws for the other documents stay as they were
    ops_inh = OPS + [op_repository, op_repository, op_repository]
    seq_len = 8 if tier == 'quick' else 14
    makers = doc_makers(tier, seed, max_secs=4 if tier == 'quick' else 5, per_shape=2 if tier == 'quick' else 3,
                         naming='reduced', relations='reduced', inherit='reduced')

    # ---- tree copies: clone and export_leaf
    for wit, make in makers:
        inherit = bool(wit.get('inherit'))
        rnd = rnd_inh if inherit else rnd_plain
        probe = make()
        pinh = inherit_classes(probe) if inherit else {}
        pnodes = all_nodes(probe)
        n_nodes = len(pnodes)
        # the document is re-built for every case: its classification is the same every time
        pname, pidc, pcont = name_classes(probe), id_classes(probe), content_classes(probe)
        shared_ids = any(v != 'unique' for v in pidc.values())
        for idx in range(n_nodes):
            k = kind_of(pnodes[idx])
            if inherit and tier == 'quick' and k == 'property':
                continue        # quick tier: of the inherit documents only the objects that can define / inherit
            if wit.get('relations') and tier == 'quick' and idx > 0 and pidc[id(pnodes[idx])] == 'unique' \
                    and pcont.get(id(pnodes[idx])) in ('distinct', 'name-of-object-above'):
                continue        # quick tier: of the relation documents only the Document and the related objects
            holds_special = wit.get('values') and any(p._name == 'special' for p in _props(pnodes[idx]))
            if wit.get('values') and tier == 'quick' and (k == 'document' or not holds_special):
                continue        # quick tier: of the value documents only the Property holding the value and the Sections above it
            ncls = (pname.get(id(pnodes[idx]), 'n/a'), pidc[id(pnodes[idx])], shared_ids,
                    pcont.get(id(pnodes[idx]), 'n/a'), pinh.get(id(pnodes[idx]), 'none'), inherit) + \
                (value_key(wit) if holds_special else ())
            ways = [('clone', True, False), ('clone', True, True)]
            if k != 'property':
                ways.append(('clone', False, False))
            if k != 'document':
                ways.append(('export_leaf', None, None))
            if wit.get('values') and tier == 'quick' and k == 'section':
                ways = [('clone', True, False), ('export_leaf', None, None)]
            for way, children, keep_id in ways:
                for direction in ('edit-copy', 'edit-original'):
                    doc = make()
                    node = all_nodes(doc)[idx]
                    if way == 'clone':
                        kind, copy = h.call(node.clone, keep_id=keep_id) if k == 'property' else \
                            h.call(node.clone, children=children, keep_id=keep_id)
                    else:
                        kind, copy = h.call(node.export_leaf)
                    if kind == 'exc':
                        continue        # reported by run_clone / run_export_leaf
                    nested = any(isinstance(v, list) for p in _props(node) for v in p._values)
                    col.case(cls_key=(way, children, keep_id, k, direction, nested, wit['linked'], bool(wit['loaded'])) + ncls,
                             sample='%s %s %s %s' % (wit['shape'], node_path(node), way, direction))
                    if direction == 'edit-copy':
                        target, watched = copy, doc
                    else:
                        # edit the whole original document, not only the node
                        target, watched = doc, copy
                    if inherit:
                        # also what APPLIES to the objects of the other tree (inherited values) must stay as it is
                        observed = (lambda x=watched: (plain_snap(x), observed_effective(x)))
                    else:
                        observed = (lambda x=watched: plain_snap(x))
                    if rnd.random() < 0.5:
                        labels, d = every_op_once(rnd, target, observed, ops=ops_inh if inherit else None,
                                                  first=(op_repository,) if inherit else ())
                    else:
                        labels, d = edit_sequence(rnd, target, observed, seq_len, ops=ops_inh if inherit else None)
                    if d:
                        col.fail(check='%s/%s' % (name, direction),
                                 cls={'clause': direction + '-leaves-other-unchanged',
                                      'feature': '%s of %s after %s' % (way, k, edit_class(labels[-1])) +
                                                 (value_suffix(wit) if holds_special else '')},
                                 witness=dict(wit, node=node_path(node), way=way, children=children, keep_id=keep_id, edits=labels),
                                 detail='the %s changed: %s' % ('original' if direction == 'edit-copy' else 'copy', d))

    # ---- lists returned by `values` and lists passed in as `values`
    rnd = rnd_plain
    pool = [(dtype, list(vals)) for dtype, vlists in h.VALUE_POOL.items() for vals in vlists]
    pool += [('2-tuple', [['1', '2'], ['3', '4']]), ('3-tuple', [['a', 'b', 'c']]), ('string', ['[a,b]']),
             ('int', ['1', '2']), ('float', [1, 2])]
    tags = {}
    # value-content dimension: every extreme / unusual value, as text and as native object, alone and among ordinary ones
    for vdtype, vlabel, entered, among, _place in value_specs('thorough'):
        if _place == 'leaf':
            special = special_value(vdtype, vlabel, entered)
            o = ordinary_values(vdtype, entered)
            tags[len(pool)] = ('%s %s' % (vdtype, vlabel), entered, among)
            pool.append((vdtype, [o[0], special, o[1]] if among else [special]))
    for pi, (dtype, vals) in enumerate(pool):
        nested_in = any(isinstance(v, list) for v in vals)
        for way in ('values-getter', 'values-setter', 'constructor'):
            for direction in ('edit-list', 'edit-property'):
                with h.quiet():
                    sec = odml.Section(name='s', type='t')
                    if way == 'constructor':
                        lst = _deep(vals)
                        kind, p = h.call(odml.Property, name='p', dtype=dtype, values=lst, parent=sec)
                    else:
                        kind, p = h.call(odml.Property, name='p', dtype=dtype, values=_deep(vals), parent=sec)
                        if kind == 'ret' and way == 'values-setter':
                            lst = _deep(vals)
                            kind, _ = h.call(setattr, p, 'values', lst)
                        elif kind == 'ret':
                            kind, lst = h.call(lambda: p.values)
                if kind == 'exc':
                    continue
                nested = any(isinstance(v, list) for v in p._values)
                col.case(cls_key=(way, dtype, direction, nested, nested_in, len(vals) > 1) + tags.get(pi, ()),
                         sample='%s %s %r %s' % (way, dtype, vals, direction))
                if direction == 'edit-list':
                    before = h.snap(sec)
                    labels = []
                    d = None
                    for lab, fn in list_edits(lst):
                        h.call(fn)
                        labels.append(lab)
                        d = h.diff(before, h.snap(sec))
                        if d:
                            break
                    changed = 'property'
                else:
                    before = h.snap(lst)
                    labels, d = every_op_once(rnd, sec, lambda lst=lst: h.snap(lst),
                                             first=(op_value_inner_edit, op_returned_list_edit))
                    changed = 'list'
                if d:
                    col.fail(check='%s/%s' % (name, way),
                             cls={'clause': '%s-%s-leaves-%s-unchanged' % (way, direction, changed),
                                  'feature': '%s after %s' % ('nested-value' if nested else 'flat-value', edit_class(labels[-1])) +
                                             (' [holds %s]' % tags[pi][0] if pi in tags else '')},
                             witness={'dtype': dtype, 'values': repr(vals), 'way': way, 'edits': labels},
                             detail='the %s changed: %s' % (changed, d))
    cleanup_work()
    return col.result()


NESTED_EDITS = ('value-inner-edit', 'returned-list-edit', 'nested-setitem', 'nested-append')


def edit_class(label):
    """Stable class of the edit that revealed a dependence (several edits reveal the same sharing)."""
    if label in NESTED_EDITS:
        return 'in-place-edit-of-nested-value'
    if label.startswith('value') or label in ('dtype-change',):
        return 'value-edit'
    if label.endswith('attribute'):
        return 'attribute-edit'
    if label.startswith('rename'):
        return 'rename'
    if label.startswith(('remove', 'add', 'move', 'reorder', 'sort', 'replace')):
        return 'structural-edit'
    return label


def _deep(v):
    return [_deep(x) for x in v] if isinstance(v, list) else v


def list_edits(lst):
    """Edits of a plain Python list handed out by / handed to the library."""
    out = [('list-append', lambda: lst.append('X'))]
    if lst:
        if isinstance(lst[0], list):
            out.append(('nested-setitem', lambda: lst[0].__setitem__(0, 'EDIT')))
            out.append(('nested-append', lambda: lst[0].append('MORE')))
        out.append(('list-setitem', lambda: lst.__setitem__(0, 'Z')))
        out.append(('list-reverse', lst.reverse))
        out.append(('list-delitem', lambda: lst.__delitem__(0)))
    out.append(('list-clear', lambda: lst.__delitem__(slice(None))))
    return out
