"""
Bounded stand-in for C11 - copies handed out are equal to, and independent of, the original.

run_clone        clone() of every node of generated documents x all flag combinations
run_export_leaf  export_leaf() of every Section / Property of generated documents
run_independence edits applied to a copy (clone, export_leaf, list returned by `values`, list passed as
                 `values`) never show in the original and vice versa

The oracle reads private fields through rcc.harness.snap (never the library's own __eq__) and compares
object identities directly.
"""
from __future__ import annotations

import datetime as dt
import os
import random
import shutil
import tempfile
import uuid

from rcc import harness as h

odml = h.odml
BaseSection, BaseProperty, BaseDocument = h.BaseSection, h.BaseProperty, h.BaseDocument

WORK = os.path.join(h.WORK, 'c11')


class Col(h.Collector):
    """Keeps at most 3 failures per (check, cls) so that a frequent class cannot hide the others."""
    def __init__(self, *a, **kw):
        super(Col, self).__init__(*a, **kw)
        self.max_failures = 400
        self.per_class = {}

    def fail(self, check, cls, witness, detail):
        key = (check, tuple(sorted(cls.items())))
        self.per_class[key] = self.per_class.get(key, 0) + 1
        if self.per_class[key] <= 3:
            super(Col, self).fail(check, cls, witness, detail)


# ---------------------------------------------------------------------------------------------
# documents (re-buildable: independence checks destroy the original)
# ---------------------------------------------------------------------------------------------

def doc_makers(tier, seed, max_secs=None, per_shape=None):
    """[(witness, make)] ; make() builds the same document (up to uuids) every time it is called."""
    if max_secs is None:
        max_secs = 4 if tier == 'quick' else 5
    if per_shape is None:
        per_shape = 2 if tier == 'quick' else 4
    out = []
    for shape in h.tree_shapes(max_secs):
        for k in range(per_shape):
            fill = 'c11-%s-%r-%d' % (seed, shape, k)
            out.append(({'shape': repr(shape), 'fill': fill, 'linked': False},
                        (lambda shape=shape, fill=fill: h.build_doc(shape, random.Random(fill)))))
    # documents with a resolved link (a merged Section remembers its target in _merged)
    for shape in h.tree_shapes(min(max_secs, 4)):
        if len(shape) < 2:
            continue
        fill = 'c11-link-%s-%r' % (seed, shape)

        def make(shape=shape, fill=fill):
            doc = h.build_doc(shape, random.Random(fill), names=['a', 'ab', 'b', 'c', 'd', 'e'])
            first, last = doc._sections[0], doc._sections[-1]
            kind, _ = h.call(setattr, first, 'link', '/' + last._name)
            return doc if kind == 'ret' else h.build_doc(shape, random.Random(fill))
        out.append(({'shape': repr(shape), 'fill': fill, 'linked': True}, make))
    return out


def all_nodes(doc):
    secs, props = h.walk(doc)
    return [doc] + secs + props


def node_path(n):
    if isinstance(n, BaseDocument):
        return '<document>'
    parts = []
    x = n
    while x is not None and not isinstance(x, BaseDocument):
        parts.insert(0, ('%s' if isinstance(x, BaseSection) else ':%s') % x._name)
        x = x._parent
    return '/' + '/'.join(parts).replace('/:', ':')


def kind_of(n):
    return 'document' if isinstance(n, BaseDocument) else ('section' if isinstance(n, BaseSection) else 'property')


def raw_snap(o, ids=True):
    """Non-frozen dict snapshot without identities."""
    if isinstance(o, BaseDocument):
        return h.snap_doc(o, ids, False)
    if isinstance(o, BaseSection):
        return h.snap_sec(o, ids, False)
    return h.snap_prop(o, ids, False)


def without_children(d):
    d = dict(d)
    if 'sections' in d:
        d['sections'] = ()
    if 'props' in d:
        d['props'] = ()
    return d


def identities(root):
    """id -> label of every mutable object that makes up the tree below root."""
    out = {}

    def rec(o):
        out[id(o)] = '%s %s' % (kind_of(o), node_path(o))
        if isinstance(o, (BaseDocument, BaseSection)):
            out[id(o._sections)] = 'section list of %s' % node_path(o)
            for c in list.__iter__(o._sections):
                rec(c)
        if isinstance(o, BaseSection):
            out[id(o._props)] = 'property list of %s' % node_path(o)
            for c in list.__iter__(o._props):
                rec(c)
        if isinstance(o, BaseProperty):
            out[id(o._values)] = 'value list of %s' % node_path(o)
            for k, v in enumerate(o._values):
                if isinstance(v, (list, dict, set)):
                    out[id(v)] = 'nested value %d of %s' % (k, node_path(o))
    rec(root)
    return out


def id_list(root):
    """ids in a fixed traversal order (positional comparison between original and copy)."""
    out = []

    def rec(o):
        out.append(o._id)
        if isinstance(o, (BaseDocument, BaseSection)):
            for c in list.__iter__(o._sections):
                rec(c)
        if isinstance(o, BaseSection):
            for c in list.__iter__(o._props):
                rec(c)
    rec(root)
    return out


def root_of(n):
    while getattr(n, '_parent', None) is not None:
        n = n._parent
    return n


def valid_uuid(x):
    try:
        return isinstance(x, str) and str(uuid.UUID(x)) == x
    except Exception:
        return False


# ---------------------------------------------------------------------------------------------
# run_clone
# ---------------------------------------------------------------------------------------------

def judge_clone(col, name, orig, copy, children, keep_id, witness, via='clone'):
    """All clauses of the clone contract for one (original, copy)."""
    k = kind_of(orig)
    base = {'kind': k, 'children': children, 'keep_id': keep_id}

    def fail(clause, feature, detail):
        col.fail(check='%s/%s' % (name, clause), cls={'clause': clause, 'feature': feature},
                 witness=dict(witness, **base), detail=detail)

    if not isinstance(copy, type(orig)):
        fail('returns-same-kind', k, 'observed %r; contract requires a %s' % (copy, type(orig).__name__))
        return
    if getattr(copy, '_parent', None) is not None or copy.parent is not None:
        fail('detached', k, 'copy reports parent %r; contract requires None' % (copy.parent,))
    # equal, ids ignored
    exp = raw_snap(orig, ids=False)
    if not children:
        exp = without_children(exp)
    d = h.diff(h.freeze(exp), h.snap(copy, ids=False, parent=False))
    if d:
        fail('equal-content' if children else 'equal-attributes', k,
             'first difference original vs copy: %s' % d)
    if not children:
        n = len(getattr(copy, '_sections', ())) + len(getattr(copy, '_props', ()))
        if n:
            fail('no-children', k, 'copy has %d children although children=False' % n)
    # every sub-object new
    shared = set(identities(orig)) & set(identities(copy))
    if shared:
        labels = identities(orig)
        what = sorted(labels[i] for i in shared)
        feat = sorted({''.join(ch for ch in w.split(' of ')[0].split(' /')[0].split(' <')[0] if not ch.isdigit()).strip()
                       for w in what})
        fail('sub-objects-new', '%s shares %s' % (k, '+'.join(feat)), 'objects shared with the original: %r' % (what[:6],))
    # ids
    oi, ci = id_list(orig), id_list(copy)
    if children and keep_id and oi != ci:
        fail('ids-kept', k, 'ids differ although keep_id=True: %r vs %r' % (oi[:4], ci[:4]))
    if not children and keep_id and ci[:1] != oi[:1]:
        fail('ids-kept', k, 'id differs although keep_id=True: %r vs %r' % (oi[:1], ci[:1]))
    if not keep_id:
        every = set(id_list(root_of(orig))) | set(oi)
        stale = [i for i in ci if i in every]
        if stale:
            where = 'root-id' if (ci[0] in every and len(stale) == 1) else 'descendant-ids'
            fail('ids-fresh', '%s %s' % (k, where),
                 '%d of %d ids in the copy are ids of the original (%r)' % (len(stale), len(ci), stale[:3]))
        if len(set(ci)) != len(ci):
            fail('ids-fresh', '%s duplicate-ids-in-copy' % k, 'ids in copy not pairwise distinct: %r' % (ci,))
    if not all(valid_uuid(i) for i in ci):
        fail('ids-wellformed', k, 'copy has a malformed id: %r' % (ci,))


def run_clone(tier, seed):
    name = 'C11.clone'
    col = Col(name, rule='every node (Document, Section, Property) of every generated document (all forest shapes up to '
                         'N Sections x random rich fillings, plus documents with a resolved link) as clone root x '
                         'children in {True, False} x keep_id in {True, False}; distinct = (node kind, flags, '
                         'has children, has nested values, depth)', exhaustive=False)
    for wit, make in doc_makers(tier, seed):
        doc = make()
        for node in all_nodes(doc):
            k = kind_of(node)
            flagsets = [(True, True), (True, False)] if k == 'property' else \
                [(True, True), (True, False), (False, True), (False, False)]
            for children, keep_id in flagsets:
                before_doc = h.snap(doc)
                before_node = h.snap(node)
                w = dict(wit, node=node_path(node))
                nested = k == 'property' and any(isinstance(v, list) for v in node._values)
                haskids = bool(getattr(node, '_sections', None)) or bool(getattr(node, '_props', None))
                col.case(cls_key=(k, children, keep_id, haskids, nested, wit['linked'], node_path(node).count('/')),
                         sample='%s %s children=%s keep_id=%s' % (wit['shape'], node_path(node), children, keep_id))
                if k == 'property':
                    kind, copy = h.call(node.clone, keep_id=keep_id)
                else:
                    kind, copy = h.call(node.clone, children=children, keep_id=keep_id)
                if kind == 'exc':
                    col.fail(check=name + '/returns', cls={'clause': 'returns', 'feature': '%s %s' % (k, type(copy).__name__)},
                             witness=dict(w, children=children, keep_id=keep_id), detail='clone raised %r' % (copy,))
                else:
                    judge_clone(col, name, node, copy, children, keep_id, w)
                d = h.diff(before_doc, h.snap(doc)) or h.diff(before_node, h.snap(node))
                if d:
                    col.fail(check=name + '/original-untouched', cls={'clause': 'original-untouched', 'feature': k},
                             witness=dict(w, children=children, keep_id=keep_id),
                             detail='the call changed the original: %s' % d)
    _templates_part(col, name, tier, seed)
    return col.result()


def _templates_part(col, name, tier, seed):
    """TemplateHandler.clone_section(url, name, children, keep_id) is the same contract on a loaded template."""
    import odml.templates as templates
    shutil.rmtree(WORK, ignore_errors=True)
    os.makedirs(os.path.join(WORK, 'tmp'))
    old_tmp = tempfile.tempdir
    tempfile.tempdir = os.path.join(WORK, 'tmp')
    try:
        makers = [m for m in doc_makers(tier, seed, max_secs=3, per_shape=1) if not m[0]['linked']]
        for n, (wit, make) in enumerate(makers):
            doc = make()
            if not doc._sections:
                continue
            fname = os.path.join(WORK, 'tpl_%d.xml' % n)
            kind, _ = h.call(odml.save, doc, fname, 'XML')
            if kind == 'exc':
                continue
            url = 'file://' + fname
            handler = templates.TemplateHandler()
            for top in list.__iter__(doc._sections):
                for children in (True, False):
                    for keep_id in (True, False):
                        kind, copy = h.call(handler.clone_section, url, top._name, children, keep_id)
                        col.case(cls_key=('template', children, keep_id, bool(top._sections), bool(top._props)))
                        w = dict(wit, node='/' + top._name, via='TemplateHandler.clone_section')
                        if kind == 'exc':
                            col.fail(check=name + '/returns', cls={'clause': 'returns', 'feature': 'template %s' % type(copy).__name__},
                                     witness=w, detail='clone_section raised %r' % (copy,))
                            continue
                        loaded = handler.get(url)
                        orig = next((s for s in list.__iter__(loaded._sections) if s._name == top._name), None)
                        if orig is None:
                            continue
                        judge_clone(col, name, orig, copy, children, keep_id, w)
    finally:
        tempfile.tempdir = old_tmp
        shutil.rmtree(WORK, ignore_errors=True)


# ---------------------------------------------------------------------------------------------
# run_export_leaf
# ---------------------------------------------------------------------------------------------

def expected_leaf(chain):
    """Snapshot (dict) of the chain root..object with all Properties of each Section on it, original ids."""
    def rec(i):
        d = raw_snap(chain[i], ids=True)
        d['sections'] = (rec(i + 1),) if i + 1 < len(chain) else ()
        return d
    return rec(0)


def run_export_leaf(tier, seed):
    name = 'C11.export_leaf'
    col = Col(name, rule='every Section and every Property of every generated document as export root; distinct = '
                         '(node kind, depth, siblings present, properties on the chain)', exhaustive=False)
    for wit, make in doc_makers(tier, seed):
        doc = make()
        secs, props = h.walk(doc)
        for node in secs + props:
            k = kind_of(node)
            last = node if k == 'section' else node._parent
            chain = []
            x = last
            while x is not None:
                chain.insert(0, x)
                x = getattr(x, '_parent', None)
            exp = h.freeze(expected_leaf(chain))
            before = h.snap(doc)
            w = dict(wit, node=node_path(node))
            col.case(cls_key=(k, len(chain), any(len(c._sections) > 1 for c in chain),
                              sum(len(getattr(c, '_props', ())) for c in chain) > 0, wit['linked']),
                     sample='%s %s' % (wit['shape'], node_path(node)))
            kind, res = h.call(node.export_leaf)
            if kind == 'exc':
                col.fail(check=name + '/returns', cls={'clause': 'returns', 'feature': '%s %s' % (k, type(res).__name__)},
                         witness=w, detail='export_leaf raised %r' % (res,))
                continue
            if not isinstance(res, BaseDocument):
                col.fail(check=name + '/root-is-document', cls={'clause': 'root-is-document', 'feature': k}, witness=w,
                         detail='observed %r; the root of the chain is the Document' % (res,))
                continue
            d = h.diff(exp, h.snap(res, ids=True, parent=False))
            if d:
                col.fail(check=name + '/exact-chain', cls={'clause': 'exact-chain', 'feature': k}, witness=w,
                         detail='first difference expected chain vs result: %s' % d)
            shared = set(identities(doc)) & set(identities(res))
            if shared:
                labels = identities(doc)
                col.fail(check=name + '/is-a-copy', cls={'clause': 'is-a-copy', 'feature': k}, witness=w,
                         detail='objects shared with the original: %r' % (sorted(labels[i] for i in shared)[:6],))
            probs = h.wellformed(res)
            if res.parent is not None or probs:
                col.fail(check=name + '/detached-wellformed', cls={'clause': 'detached-wellformed', 'feature': k}, witness=w,
                         detail='result not a well-formed detached tree: %r' % (probs[:3],))
            d = h.diff(before, h.snap(doc))
            if d:
                col.fail(check=name + '/original-untouched', cls={'clause': 'original-untouched', 'feature': k}, witness=w,
                         detail='the call changed the original: %s' % d)
    return col.result()


# ---------------------------------------------------------------------------------------------
# edit operations (public API only); each returns a label or None when not applicable
# ---------------------------------------------------------------------------------------------

NEWVALS = {
    'string': ['n1', 'n2'], 'text': ['nt\n1', 'nt2'], 'int': [41, 42], 'float': [4.5, 5.5], 'boolean': [True, False],
    'date': [dt.date(2021, 2, 3), dt.date(2022, 3, 4)], 'time': [dt.time(1, 2, 3), dt.time(4, 5, 6)],
    'datetime': [dt.datetime(2021, 2, 3, 4, 5, 6), dt.datetime(2022, 1, 1, 1, 1, 1)],
    'url': ['http://n.org/1', 'http://n.org/2'], 'person': ['New, P', 'Other, Q'],
    '2-tuple': ['(7;8)', '(9;0)'], '3-tuple': ['(x;y;z)', '(u;v;w)'],
}


def _props(root):
    if isinstance(root, BaseProperty):
        return [root]
    return h.walk(root)[1]


def _secs(root, with_root=True):
    if isinstance(root, BaseProperty):
        return []
    secs = h.walk(root)[0]
    if with_root and isinstance(root, BaseSection):
        secs = [root] + secs
    return secs


def _holders(root):
    if isinstance(root, BaseProperty):
        return []
    return [root] + h.walk(root)[0]


def _nv(p, rnd):
    return NEWVALS.get(p._dtype, ['n1', 'n2'])


def op_values_set(rnd, root):
    ps = _props(root)
    if not ps:
        return None
    p = rnd.choice(ps)
    h.call(setattr, p, 'values', list(_nv(p, rnd)))
    return 'values-set'


def op_value_append(rnd, root):
    ps = _props(root)
    if not ps:
        return None
    p = rnd.choice(ps)
    h.call(p.append, _nv(p, rnd)[0])
    return 'value-append'


def op_value_extend(rnd, root):
    ps = _props(root)
    if not ps:
        return None
    p = rnd.choice(ps)
    h.call(p.extend, list(_nv(p, rnd)))
    return 'value-extend'


def op_value_setitem(rnd, root):
    ps = [p for p in _props(root) if p._values]
    if not ps:
        return None
    p = rnd.choice(ps)
    h.call(p.__setitem__, 0, _nv(p, rnd)[1])
    return 'value-setitem'


def op_value_remove(rnd, root):
    ps = [p for p in _props(root) if p._values]
    if not ps:
        return None
    p = rnd.choice(ps)
    h.call(p.remove, p._values[0])
    return 'value-remove'


def op_value_insert(rnd, root):
    ps = _props(root)
    if not ps:
        return None
    p = rnd.choice(ps)
    h.call(p.insert, 0, _nv(p, rnd)[1])
    return 'value-insert'


def op_value_inner_edit(rnd, root):
    """Edit in place a nested value reached through the public item access p[i]."""
    ps = [p for p in _props(root) if any(isinstance(v, list) for v in p._values)]
    if not ps:
        return None
    p = rnd.choice(ps)

    def edit():
        v = p[0]
        v[0] = 'EDIT'
        v.append('MORE')
    h.call(edit)
    return 'value-inner-edit'


def op_returned_list_edit(rnd, root):
    ps = [p for p in _props(root)]
    if not ps:
        return None
    p = rnd.choice(ps)

    def edit():
        v = p.values
        v.append('X')
        if v and isinstance(v[0], list):
            v[0].append('Y')
        del v[0]
    h.call(edit)
    return 'returned-list-edit'


def op_dtype(rnd, root):
    ps = _props(root)
    if not ps:
        return None
    p = rnd.choice(ps)
    h.call(setattr, p, 'dtype', rnd.choice(['string', 'text', 'float']))
    return 'dtype-change'


def op_prop_attr(rnd, root):
    ps = _props(root)
    if not ps:
        return None
    p = rnd.choice(ps)
    attr, val = rnd.choice([('unit', 'kg'), ('uncertainty', 9.5), ('definition', 'edited def'), ('reference', 'edited ref'),
                            ('value_origin', 'edited.dat'), ('dependency', 'edep'), ('dependency_value', 'edv'),
                            ('unit', None), ('definition', None)])
    h.call(setattr, p, attr, val)
    return 'property-attribute'


def op_sec_attr(rnd, root):
    ss = _secs(root)
    if not ss:
        return None
    s = rnd.choice(ss)
    attr, val = rnd.choice([('definition', 'edited sdef'), ('reference', 'edited sref'), ('type', 'edited/type'),
                            ('definition', None), ('repository', None)])
    h.call(setattr, s, attr, val)
    return 'section-attribute'


def op_doc_attr(rnd, root):
    if not isinstance(root, BaseDocument):
        return None
    attr, val = rnd.choice([('author', 'edited author'), ('version', 'e9'), ('date', dt.date(2001, 1, 1)), ('author', None)])
    h.call(setattr, root, attr, val)
    return 'document-attribute'


def op_rename(rnd, root):
    cands = _secs(root) + _props(root)
    if not cands:
        return None
    x = rnd.choice(cands)
    h.call(setattr, x, 'name', 'ren%d' % rnd.randrange(1000))
    return 'rename-%s' % kind_of(x)


def op_new_id(rnd, root):
    cands = _holders(root) + _props(root)
    x = rnd.choice(cands)
    h.call(x.new_id)
    return 'new-id'


def op_remove_child(rnd, root):
    cands = [c for c in _secs(root, with_root=False) + _props(root) if c is not root and c._parent is not None]
    if not cands:
        return None
    c = rnd.choice(cands)
    if rnd.random() < 0.5:
        h.call(c._parent.remove, c)
    else:
        h.call(setattr, c, 'parent', None)
    return 'remove-%s' % kind_of(c)


def op_add_section(rnd, root):
    hs = _holders(root)
    if not hs:
        return None
    par = rnd.choice(hs)
    nm = 'new%d' % rnd.randrange(1000)
    how = rnd.choice(['ctor', 'append', 'insert', 'create', 'extend'])
    with h.quiet():
        if how == 'ctor':
            h.call(odml.Section, name=nm, type='nt', parent=par)
        elif how == 'append':
            h.call(par.append, odml.Section(name=nm, type='nt'))
        elif how == 'insert':
            h.call(par.insert, 0, odml.Section(name=nm, type='nt'))
        elif how == 'create':
            h.call(par.create_section, nm, 'nt')
        else:
            h.call(par.extend, [odml.Section(name=nm, type='nt'), odml.Section(name=nm + 'x', type='nt')])
    return 'add-section'


def op_add_property(rnd, root):
    ss = _secs(root)
    if not ss:
        return None
    par = rnd.choice(ss)
    nm = 'newp%d' % rnd.randrange(1000)
    how = rnd.choice(['ctor', 'append', 'insert', 'create'])
    with h.quiet():
        if how == 'ctor':
            h.call(odml.Property, name=nm, values=[1, 2], parent=par)
        elif how == 'append':
            h.call(par.append, odml.Property(name=nm, values=['q']))
        elif how == 'insert':
            h.call(par.insert, 0, odml.Property(name=nm, values=[1.5]))
        else:
            h.call(par.create_property, nm, ['(1;2)'], '2-tuple')
    return 'add-property'


def _inside(x, y):
    """x is y or lies below y."""
    while x is not None:
        if x is y:
            return True
        x = getattr(x, '_parent', None)
    return False


def op_move(rnd, root):
    movable = [c for c in _secs(root, with_root=False) if c is not root]
    if not movable:
        return None
    c = rnd.choice(movable)
    targets = [t for t in _holders(root) if not _inside(t, c) and t is not c._parent]
    if not targets:
        return None
    h.call(setattr, c, 'parent', rnd.choice(targets))
    return 'move-section'


def op_move_property(rnd, root):
    ps = [p for p in _props(root) if p is not root]
    ss = _secs(root)
    if not ps or len(ss) < 2:
        return None
    p = rnd.choice(ps)
    h.call(setattr, p, 'parent', rnd.choice([s for s in ss if s is not p._parent]))
    return 'move-property'


def op_reorder(rnd, root):
    cands = [c for c in _secs(root, with_root=False) + _props(root) if c is not root and c._parent is not None]
    if not cands:
        return None
    h.call(rnd.choice(cands).reorder, 0)
    return 'reorder'


def op_sort(rnd, root):
    hs = _holders(root)
    if not hs:
        return None
    x = rnd.choice(hs)
    h.call(x.sections.sort, reverse=True)
    if isinstance(x, BaseSection):
        h.call(x.properties.sort, reverse=True)
    return 'sort-children'


def op_replace_child(rnd, root):
    hs = [x for x in _holders(root) if len(x._sections)]
    if not hs:
        return None
    x = rnd.choice(hs)
    with h.quiet():
        h.call(x.sections.__setitem__, 0, odml.Section(name='repl%d' % rnd.randrange(1000), type='nt'))
    return 'replace-child'


def op_cardinality(rnd, root):
    cands = _secs(root) + _props(root)
    if not cands:
        return None
    x = rnd.choice(cands)
    val = rnd.choice([None, (1, 3), 2, (None, 5), (2, None)])
    if isinstance(x, BaseProperty):
        if rnd.random() < 0.5:
            h.call(setattr, x, 'val_cardinality', val)
        else:
            h.call(x.set_values_cardinality, 1, 4)
    else:
        if rnd.random() < 0.5:
            h.call(setattr, x, rnd.choice(['sec_cardinality', 'prop_cardinality']), val)
        else:
            h.call(rnd.choice([x.set_sections_cardinality, x.set_properties_cardinality]), 0, 7)
    return 'cardinality'


def op_merge(rnd, root):
    ss = _secs(root)
    if not ss:
        return None
    s = rnd.choice(ss)
    with h.quiet():
        other = odml.Section(name='m', type='mt', definition='merged def')
        odml.Property(name='mp', values=[5], parent=other)
        odml.Section(name='msub', type='mt', parent=other)
    h.call(s.merge, other, False)
    return 'merge'


def op_clean(rnd, root):
    if isinstance(root, BaseProperty):
        return None
    h.call(root.clean)
    return 'clean'


OPS = [op_values_set, op_value_append, op_value_extend, op_value_setitem, op_value_remove, op_value_insert,
       op_value_inner_edit, op_returned_list_edit, op_dtype, op_prop_attr, op_sec_attr, op_doc_attr, op_rename,
       op_new_id, op_remove_child, op_add_section, op_add_property, op_move, op_move_property, op_reorder, op_sort,
       op_replace_child, op_cardinality, op_merge, op_clean]


def edit_sequence(rnd, target, observed, length):
    """Apply `length` random edits to the tree `target`; after each one `observed()` must be unchanged.
    Returns (labels applied, first difference or None)."""
    before = observed()
    labels = []
    for _ in range(length):
        for _try in range(6):
            lab = rnd.choice(OPS)(rnd, target)
            if lab:
                break
        else:
            break
        labels.append(lab)
        d = h.diff(before, observed())
        if d:
            return labels, d
    return labels, None


def every_op_once(rnd, target, observed, first=()):
    """Apply every applicable operation once (the ones in `first`, then the rest in random order);
    `observed()` must stay unchanged."""
    before = observed()
    labels = []
    ops = [o for o in OPS if o not in first]
    rnd.shuffle(ops)
    ops = list(first) + ops
    for op in ops:
        lab = op(rnd, target)
        if not lab:
            continue
        labels.append(lab)
        d = h.diff(before, observed())
        if d:
            return labels, d
    return labels, None


# ---------------------------------------------------------------------------------------------
# run_independence
# ---------------------------------------------------------------------------------------------

def _index_of(doc, node):
    nodes = all_nodes(doc)
    return next(i for i, n in enumerate(nodes) if n is node)


def run_independence(tier, seed):
    name = 'C11.independence'
    col = Col(name, rule='(way the copy was obtained: clone x flags | export_leaf | list returned by values | list '
                         'passed as values (setter, constructor)) x node x direction (edit copy / edit original) x '
                         'random edit sequence drawn from 25 operations (value edits, attribute edits, renames, new ids, '
                         'add/remove/move/reorder/replace children, cardinalities, merge, clean), checked after every '
                         'edit; distinct = (way, node kind, direction, has nested values)', exhaustive=False)
    rnd = random.Random('c11-ind-%s' % seed)
    seq_len = 8 if tier == 'quick' else 14
    makers = doc_makers(tier, seed, max_secs=4 if tier == 'quick' else 5, per_shape=2 if tier == 'quick' else 3)

    # ---- tree copies: clone and export_leaf
    for wit, make in makers:
        probe = make()
        n_nodes = len(all_nodes(probe))
        for idx in range(n_nodes):
            k = kind_of(all_nodes(probe)[idx])
            ways = [('clone', True, False), ('clone', True, True)]
            if k != 'property':
                ways.append(('clone', False, False))
            if k != 'document':
                ways.append(('export_leaf', None, None))
            for way, children, keep_id in ways:
                for direction in ('edit-copy', 'edit-original'):
                    doc = make()
                    node = all_nodes(doc)[idx]
                    if way == 'clone':
                        kind, copy = h.call(node.clone, keep_id=keep_id) if k == 'property' else \
                            h.call(node.clone, children=children, keep_id=keep_id)
                    else:
                        kind, copy = h.call(node.export_leaf)
                    if kind == 'exc':
                        continue        # reported by run_clone / run_export_leaf
                    nested = any(isinstance(v, list) for p in _props(node) for v in p._values)
                    col.case(cls_key=(way, children, keep_id, k, direction, nested, wit['linked']),
                             sample='%s %s %s %s' % (wit['shape'], node_path(node), way, direction))
                    if direction == 'edit-copy':
                        target, observed = copy, (lambda doc=doc: h.snap(doc))
                    else:
                        # edit the whole original document, not only the node
                        target, observed = doc, (lambda copy=copy: h.snap(copy))
                    if rnd.random() < 0.5:
                        labels, d = every_op_once(rnd, target, observed)
                    else:
                        labels, d = edit_sequence(rnd, target, observed, seq_len)
                    if d:
                        col.fail(check='%s/%s' % (name, direction),
                                 cls={'clause': direction + '-leaves-other-unchanged',
                                      'feature': '%s of %s after %s' % (way, k, edit_class(labels[-1]))},
                                 witness=dict(wit, node=node_path(node), way=way, children=children, keep_id=keep_id, edits=labels),
                                 detail='the %s changed: %s' % ('original' if direction == 'edit-copy' else 'copy', d))

    # ---- lists returned by `values` and lists passed in as `values`
    pool = [(dtype, list(vals)) for dtype, vlists in h.VALUE_POOL.items() for vals in vlists]
    pool += [('2-tuple', [['1', '2'], ['3', '4']]), ('3-tuple', [['a', 'b', 'c']]), ('string', ['[a,b]']),
             ('int', ['1', '2']), ('float', [1, 2])]
    for dtype, vals in pool:
        nested_in = any(isinstance(v, list) for v in vals)
        for way in ('values-getter', 'values-setter', 'constructor'):
            for direction in ('edit-list', 'edit-property'):
                with h.quiet():
                    sec = odml.Section(name='s', type='t')
                    if way == 'constructor':
                        lst = _deep(vals)
                        kind, p = h.call(odml.Property, name='p', dtype=dtype, values=lst, parent=sec)
                    else:
                        kind, p = h.call(odml.Property, name='p', dtype=dtype, values=_deep(vals), parent=sec)
                        if kind == 'ret' and way == 'values-setter':
                            lst = _deep(vals)
                            kind, _ = h.call(setattr, p, 'values', lst)
                        elif kind == 'ret':
                            kind, lst = h.call(lambda: p.values)
                if kind == 'exc':
                    continue
                nested = any(isinstance(v, list) for v in p._values)
                col.case(cls_key=(way, dtype, direction, nested, nested_in, len(vals) > 1),
                         sample='%s %s %r %s' % (way, dtype, vals, direction))
                if direction == 'edit-list':
                    before = h.snap(sec)
                    labels = []
                    d = None
                    for lab, fn in list_edits(lst):
                        h.call(fn)
                        labels.append(lab)
                        d = h.diff(before, h.snap(sec))
                        if d:
                            break
                    changed = 'property'
                else:
                    before = h.snap(lst)
                    labels, d = every_op_once(rnd, sec, lambda lst=lst: h.snap(lst),
                                             first=(op_value_inner_edit, op_returned_list_edit))
                    changed = 'list'
                if d:
                    col.fail(check='%s/%s' % (name, way),
                             cls={'clause': '%s-%s-leaves-%s-unchanged' % (way, direction, changed),
                                  'feature': '%s after %s' % ('nested-value' if nested else 'flat-value', edit_class(labels[-1]))},
                             witness={'dtype': dtype, 'values': repr(vals), 'way': way, 'edits': labels},
                             detail='the %s changed: %s' % (changed, d))
    return col.result()


NESTED_EDITS = ('value-inner-edit', 'returned-list-edit', 'nested-setitem', 'nested-append')


def edit_class(label):
    """Stable class of the edit that revealed a dependence (several edits reveal the same sharing)."""
    if label in NESTED_EDITS:
        return 'in-place-edit-of-nested-value'
    if label.startswith('value') or label in ('dtype-change',):
        return 'value-edit'
    if label.endswith('attribute'):
        return 'attribute-edit'
    if label.startswith('rename'):
        return 'rename'
    if label.startswith(('remove', 'add', 'move', 'reorder', 'sort', 'replace')):
        return 'structural-edit'
    return label


def _deep(v):
    return [_deep(x) for x in v] if isinstance(v, list) else v


def list_edits(lst):
    """Edits of a plain Python list handed out by / handed to the library."""
    out = [('list-append', lambda: lst.append('X'))]
    if lst:
        if isinstance(lst[0], list):
            out.append(('nested-setitem', lambda: lst[0].__setitem__(0, 'EDIT')))
            out.append(('nested-append', lambda: lst[0].append('MORE')))
        out.append(('list-setitem', lambda: lst.__setitem__(0, 'Z')))
        out.append(('list-reverse', lst.reverse))
        out.append(('list-delitem', lambda: lst.__delitem__(0)))
    out.append(('list-clear', lambda: lst.__delitem__(slice(None))))
    return out
