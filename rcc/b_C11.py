"""
Bounded stand-in for C11 - copies handed out are equal to, and independent of, the original.

run_clone        clone() of every node of generated documents x all flag combinations
run_export_leaf  export_leaf() of every Section / Property of generated documents
run_independence edits applied to a copy (clone, export_leaf, list returned by `values`, list passed as
                 `values`) never show in the original and vice versa

The oracle reads private fields through rcc.harness.snap (never the library's own __eq__) and compares
object identities directly.
"""
from __future__ import annotations

import datetime as dt
import os
import random
import shutil
import tempfile
import uuid

from rcc import harness as h

odml = h.odml
BaseSection, BaseProperty, BaseDocument = h.BaseSection, h.BaseProperty, h.BaseDocument

WORK = os.path.join(h.WORK, 'c11-%d' % os.getpid())     # per process: concurrent runs do not share files


class Col(h.Collector):
    """Keeps at most 3 failures per (check, cls) so that a frequent class cannot hide the others."""
    def __init__(self, *a, **kw):
        super(Col, self).__init__(*a, **kw)
        self.max_failures = 400
        self.per_class = {}

    def fail(self, check, cls, witness, detail):
        key = (check, tuple(sorted(cls.items())))
        self.per_class[key] = self.per_class.get(key, 0) + 1
        if self.per_class[key] <= 3:
            super(Col, self).fail(check, cls, witness, detail)


# ---------------------------------------------------------------------------------------------
# naming dimension: how the name of a Section / Property relates to ids
# ---------------------------------------------------------------------------------------------
# `name` is optional in the constructors and in the setter: an object without a name of its own is named after
# its id.  A name is content (it must survive clone / export_leaf), an id is not (fresh unless keep_id).  The
# generator therefore varies the relation between the two for every object, at every depth.

PLAIN_NAMES = ['a', 'ab', 'b']
ODD_NAMES = ['0', ' a ', 'a/b', 'a:b', 'é ü', 'None', '..', 'A', 'name', '-1']

SPELLINGS = {
    'own-id-upper': lambda i: i.upper(),
    'own-id-hex': lambda i: i.replace('-', ''),
    'own-id-urn': lambda i: 'urn:uuid:' + i,
    'own-id-braces': lambda i: '{%s}' % i,
}

NAME_MODES = ['plain', 'odd',
              # no name of its own: the name falls back to the id
              'unnamed', 'unnamed-oid', 'unnamed-oid-upper', 'empty-name', 'renamed-to-default',
              # was unnamed, got another id afterwards
              'unnamed-then-new-id',
              # the own id in another spelling
              'own-id-upper', 'own-id-hex', 'own-id-urn', 'own-id-braces',
              # a uuid that is nobody's id
              'foreign-uuid', 'foreign-uuid-upper',
              # the id of ANOTHER object of the same document
              'id-of-document', 'id-of-parent', 'id-of-sibling', 'id-of-child', 'id-of-other']

REDUCED_MODES = ['unnamed', 'unnamed-oid', 'renamed-to-default', 'unnamed-then-new-id', 'own-id-upper',
                 'id-of-parent', 'id-of-sibling', 'odd']


def det_uuid(rnd):
    return str(uuid.UUID(int=rnd.getrandbits(128), version=4))


def uuid_like(s):
    try:
        return isinstance(s, str) and bool(uuid.UUID(s))
    except Exception:
        return False


def name_classes(root):
    """id(obj) -> relation between the name of obj and the ids of the tree (read from private fields)."""
    root = root_of(root)
    secs, props = ([], []) if isinstance(root, BaseProperty) else h.walk(root)
    objs = secs + props
    if isinstance(root, (BaseSection, BaseProperty)):
        objs = [root] + objs
    ids = {}
    for o in [root] + objs:
        ids.setdefault(o._id, o)
    out = {id(root): 'n/a'} if isinstance(root, BaseDocument) else {}
    for o in objs:
        nm, oid = o._name, o._id
        if nm == oid:
            c = 'name==own-id'
        elif uuid_like(nm):
            canon = str(uuid.UUID(nm))
            if canon == oid:
                c = 'name~own-id-in-other-spelling'
            elif nm in ids:
                c = 'name==id-of-other-object'
            elif canon in ids:
                c = 'name~id-of-other-object-in-other-spelling'
            else:
                c = 'name-is-foreign-uuid'
        elif nm in ODD_NAMES:
            c = 'odd-name'
        else:
            c = 'plain-name'
        out[id(o)] = c
    return out


def subtree_trait(node, classes):
    """Does the tree below node hold an object whose name is id-related?"""
    if isinstance(node, BaseProperty):
        return False
    secs, props = h.walk(node)
    return any(classes.get(id(o), 'plain-name') not in ('plain-name', 'odd-name', 'n/a') for o in secs + props)


def depth_of(n):
    d = 0
    while getattr(n, '_parent', None) is not None:
        d += 1
        n = n._parent
    return d


def build_named(shape, rnd, mode_of, props_per_sec=(0, 1, 2), rich=True):
    """Document over a forest shape; mode_of(kind, k) gives the naming mode of the k-th created object
    (Sections and Properties are counted together in creation order: a Section, its Properties, its sub-Sections)."""
    post = []
    counter = [0]

    def nxt(kind):
        k = counter[0]
        counter[0] += 1
        return mode_of(kind, k)

    def ctor_name(mode, used, pool):
        kw = {}
        if mode in ('unnamed', 'unnamed-then-new-id'):
            return kw
        if mode == 'unnamed-oid':
            return {'oid': det_uuid(rnd)}
        if mode == 'unnamed-oid-upper':
            return {'oid': det_uuid(rnd).upper()}
        if mode == 'empty-name':
            return {'name': ''}
        name = rnd.choice(ODD_NAMES if mode == 'odd' else pool)
        while name in used:
            name += rnd.choice(['a', 'b', '1'])
        used.add(name)
        return {'name': name}

    with h.quiet():
        doc = odml.Document(author=rnd.choice([None, 'me', 'Ann B.']), version=rnd.choice([None, '1.0', 'v2']),
                            date=rnd.choice([None, dt.date(2020, 5, 17)]))

        def add(parent, forest):
            used = set()
            for sub in forest:
                mode = nxt('section')
                kw = ctor_name(mode, used, PLAIN_NAMES)
                if rnd.random() < 0.85:
                    kw['type'] = rnd.choice(['t', 'setup/daq', 'n.s.x'])      # else the default type
                if rich:
                    kw['definition'] = rnd.choice([None, 'def', ' spaced def '])
                    kw['reference'] = rnd.choice([None, 'ref'])
                sec = odml.Section(parent=parent, **kw)
                post.append((sec, mode))
                if rich and rnd.random() < 0.3:
                    sec.sec_cardinality = rnd.choice(h.CARDS)
                if rich and rnd.random() < 0.3:
                    sec.prop_cardinality = rnd.choice(h.CARDS)
                pused = set()
                for _ in range(rnd.choice(props_per_sec)):
                    pmode = nxt('property')
                    pkw = ctor_name(pmode, pused, PLAIN_NAMES)
                    dtype = rnd.choice(list(h.VALUE_POOL))
                    vals = list(rnd.choice(h.VALUE_POOL[dtype] + [[]]))
                    if rnd.random() < 0.15:
                        dtype = None                                            # dtype inferred from the values
                    p = odml.Property(dtype=dtype, values=vals, parent=sec, **pkw)
                    post.append((p, pmode))
                    if rich:
                        if rnd.random() < 0.4:
                            p.unit = rnd.choice(['mV', 'µm', 's'])
                        if rnd.random() < 0.3:
                            p.uncertainty = rnd.choice([0.5, 2, 0, 0.0])
                        if rnd.random() < 0.3:
                            p.definition = rnd.choice(['pdef', 'Def,with "chars" <&>'])
                        if rnd.random() < 0.2:
                            p.reference = 'pref'
                        if rnd.random() < 0.2:
                            p.value_origin = 'file.dat'
                        if rnd.random() < 0.2:
                            p.dependency = 'dep'
                            p.dependency_value = 'dv'
                        if rnd.random() < 0.3:
                            p.val_cardinality = rnd.choice(h.CARDS)
                add(sec, sub)
        add(doc, shape)

        # second pass: names that refer to ids known only now (set through the public setter; a clash with a
        # sibling is refused by the library and the object keeps the name it has)
        everything = [doc] + [o for o, _ in post]
        for o, mode in post:
            par = o._parent
            new = None
            if mode == 'renamed-to-default':
                h.call(setattr, o, 'name', None)
            elif mode == 'unnamed-then-new-id':
                h.call(o.new_id)
            elif mode in SPELLINGS:
                new = SPELLINGS[mode](o._id)
            elif mode == 'foreign-uuid':
                new = det_uuid(rnd)
            elif mode == 'foreign-uuid-upper':
                new = det_uuid(rnd).upper()
            elif mode == 'id-of-document':
                new = doc._id
            elif mode == 'id-of-parent':
                new = par._id
            elif mode == 'id-of-sibling':
                same = [c for c in list.__iter__(par._sections if isinstance(o, BaseSection) else par._props)
                        if c is not o]
                other = [c for c in list.__iter__(getattr(par, '_props', []) if isinstance(o, BaseSection)
                                                  else par._sections)]
                cands = same or other
                new = cands[0]._id if cands else doc._id
            elif mode == 'id-of-child':
                kids = [] if isinstance(o, BaseProperty) else \
                    list(list.__iter__(o._sections)) + list(list.__iter__(o._props))
                new = kids[0]._id if kids else par._id
            elif mode == 'id-of-other':
                new = rnd.choice([x for x in everything if x is not o])._id
            if new is not None:
                h.call(setattr, o, 'name', new)
    return doc


FORMATS = ['XML', 'JSON', 'YAML']


def via_file(doc, fmt, tag='load'):
    """Save the document and load it again (real files below .work); None when the library refuses."""
    d = os.path.join(WORK, '%s-%d' % (tag, os.getpid()))
    os.makedirs(d, exist_ok=True)
    path = os.path.join(d, 'doc.' + fmt.lower())
    try:
        kind, _ = h.call(odml.save, doc, path, fmt)
        if kind == 'exc':
            return None
        kind, res = h.call(odml.load, path, fmt)
        return res if kind == 'ret' and isinstance(res, BaseDocument) else None
    finally:
        if os.path.exists(path):
            os.remove(path)


def cleanup_work():
    for tag in ('load', 'tpl'):
        shutil.rmtree(os.path.join(WORK, '%s-%d' % (tag, os.getpid())), ignore_errors=True)
    try:
        os.rmdir(WORK)
    except OSError:
        pass


PLACEMENT_SHAPES_QUICK = [((),), (((),),), ((((),),),), ((), ())]
PLACEMENT_SHAPES_THOROUGH = PLACEMENT_SHAPES_QUICK + [(((), ()),), (((((),),),),)]


def count_objects(shape, props_each):
    n = 0
    for sub in shape:
        n += 1 + props_each + count_objects(sub, props_each)
    return n


def naming_makers(tier, seed, scope='full', max_secs=None, per_shape=1):
    """[(witness, make)] over the naming dimension.
    1. placement (exhaustive): every placement shape x every position (each Section, each Property, i.e. every depth)
       x every naming mode: exactly that object is special, all others have plain names;
    2. uniform: every object of the document has the same mode;
    3. mixtures: all forest shapes up to max_secs Sections, every object draws its mode at random;
    4. the same documents saved to a file and loaded again (XML / JSON / YAML).
    scope='reduced' keeps the dimension but fewer modes / shapes (for the expensive independence runs)."""
    out = []
    modes = [m for m in NAME_MODES if m != 'plain'] if scope == 'full' else list(REDUCED_MODES)
    shapes = PLACEMENT_SHAPES_THOROUGH if (tier != 'quick' and scope == 'full') else PLACEMENT_SHAPES_QUICK
    uniform_shapes = shapes
    if scope != 'full':
        shapes = [(((),),)] if tier == 'quick' else PLACEMENT_SHAPES_QUICK
        uniform_shapes = [(((),),), ((), ())] if tier == 'quick' else PLACEMENT_SHAPES_QUICK
    if max_secs is None:
        max_secs = 3 if tier == 'quick' else 4
    specs = []
    for shape in shapes:
        n = count_objects(shape, 1)
        for pos in range(n):
            for mode in modes:
                specs.append((shape, 'one:%s@%d' % (mode, pos), (1,)))
    for shape in uniform_shapes:
        for mode in modes:
            specs.append((shape, 'all:%s' % mode, (1, 2)))
    for shape in h.tree_shapes(max_secs):
        if not shape:
            continue
        for k in range(per_shape):
            specs.append((shape, 'mix:%d' % k, (0, 1, 2)))

    def maker(shape, naming, pps, fmt):
        fill = 'c11-name-%s-%r-%s' % (seed, shape, naming)

        def make():
            rnd = random.Random(fill)
            if naming.startswith('one:'):
                mode, pos = naming[4:].split('@')
                pos = int(pos)
                mode_of = (lambda kind, k: mode if k == pos else 'plain')
            elif naming.startswith('all:'):
                mode_of = (lambda kind, k: naming[4:])
            else:
                mrnd = random.Random(fill + 'm')
                mode_of = (lambda kind, k: 'plain' if mrnd.random() < 0.35 else mrnd.choice(NAME_MODES))
            doc = build_named(shape, rnd, mode_of, props_per_sec=pps)
            if fmt:
                doc = via_file(doc, fmt)
            return doc
        return ({'shape': repr(shape), 'fill': fill, 'linked': False, 'naming': naming, 'loaded': fmt}, make)

    for n, (shape, naming, pps) in enumerate(specs):
        out.append(maker(shape, naming, pps, None))
        if tier == 'quick' and scope != 'full':
            fmts = [FORMATS[(n + n // len(modes)) % 3]] if (naming.startswith('mix:') or (naming.startswith('all:') and n % 2 == 0)) else []
        elif tier == 'quick' or scope != 'full':
            fmts = [FORMATS[(n + n // len(modes)) % 3]] if (naming.startswith(('all:', 'mix:')) or n % 4 == 0) else []
        else:
            fmts = FORMATS if naming.startswith(('all:', 'mix:')) else [FORMATS[(n + n // len(modes)) % 3]]
        for fmt in fmts:
            wit, make = maker(shape, naming, pps, fmt)
            if make() is not None:          # the library may refuse to write / read a document; then there is no original
                out.append((wit, make))
    return out


# ---------------------------------------------------------------------------------------------
# documents (re-buildable: independence checks destroy the original)
# ---------------------------------------------------------------------------------------------

def doc_makers(tier, seed, max_secs=None, per_shape=None, naming='full'):
    """[(witness, make)] ; make() builds the same document (up to uuids) every time it is called."""
    if max_secs is None:
        max_secs = 4 if tier == 'quick' else 5
    if per_shape is None:
        per_shape = 2 if tier == 'quick' else 4
    out = []
    for shape in h.tree_shapes(max_secs):
        for k in range(per_shape):
            fill = 'c11-%s-%r-%d' % (seed, shape, k)
            out.append(({'shape': repr(shape), 'fill': fill, 'linked': False, 'naming': 'plain', 'loaded': None},
                        (lambda shape=shape, fill=fill: h.build_doc(shape, random.Random(fill)))))
    # documents with a resolved link (a merged Section remembers its target in _merged)
    for shape in h.tree_shapes(min(max_secs, 4)):
        if len(shape) < 2:
            continue
        for lnaming in ('plain', 'all:unnamed'):
            if lnaming != 'plain' and tier == 'quick' and sum(1 for ch in repr(shape) if ch == '(') - 1 > 3:
                continue
            fill = 'c11-link-%s-%r-%s' % (seed, shape, lnaming)

            def make(shape=shape, fill=fill, naming=lnaming):
                if naming == 'plain':
                    doc = h.build_doc(shape, random.Random(fill), names=['a', 'ab', 'b', 'c', 'd', 'e'])
                else:
                    doc = build_named(shape, random.Random(fill), lambda kind, k: 'unnamed')
                first, last = doc._sections[0], doc._sections[-1]
                kind, _ = h.call(setattr, first, 'link', '/' + last._name)
                return doc if kind == 'ret' else h.build_doc(shape, random.Random(fill))
            out.append(({'shape': repr(shape), 'fill': fill, 'linked': True, 'naming': lnaming, 'loaded': None}, make))
    if naming:
        out += naming_makers(tier, seed, scope=naming)
    return out


def all_nodes(doc):
    secs, props = h.walk(doc)
    return [doc] + secs + props


def node_path(n):
    if isinstance(n, BaseDocument):
        return '<document>'
    parts = []
    x = n
    while x is not None and not isinstance(x, BaseDocument):
        parts.insert(0, ('%s' if isinstance(x, BaseSection) else ':%s') % x._name)
        x = x._parent
    return '/' + '/'.join(parts).replace('/:', ':')


def kind_of(n):
    return 'document' if isinstance(n, BaseDocument) else ('section' if isinstance(n, BaseSection) else 'property')


def raw_snap(o, ids=True):
    """Non-frozen dict snapshot without identities."""
    if isinstance(o, BaseDocument):
        return h.snap_doc(o, ids, False)
    if isinstance(o, BaseSection):
        return h.snap_sec(o, ids, False)
    return h.snap_prop(o, ids, False)


def without_children(d):
    d = dict(d)
    if 'sections' in d:
        d['sections'] = ()
    if 'props' in d:
        d['props'] = ()
    return d


def identities(root):
    """id -> label of every mutable object that makes up the tree below root."""
    out = {}

    def rec(o):
        out[id(o)] = '%s %s' % (kind_of(o), node_path(o))
        if isinstance(o, (BaseDocument, BaseSection)):
            out[id(o._sections)] = 'section list of %s' % node_path(o)
            for c in list.__iter__(o._sections):
                rec(c)
        if isinstance(o, BaseSection):
            out[id(o._props)] = 'property list of %s' % node_path(o)
            for c in list.__iter__(o._props):
                rec(c)
        if isinstance(o, BaseProperty):
            out[id(o._values)] = 'value list of %s' % node_path(o)
            for k, v in enumerate(o._values):
                if isinstance(v, (list, dict, set)):
                    out[id(v)] = 'nested value %d of %s' % (k, node_path(o))
    rec(root)
    return out


def id_list(root):
    """ids in a fixed traversal order (positional comparison between original and copy)."""
    out = []

    def rec(o):
        out.append(o._id)
        if isinstance(o, (BaseDocument, BaseSection)):
            for c in list.__iter__(o._sections):
                rec(c)
        if isinstance(o, BaseSection):
            for c in list.__iter__(o._props):
                rec(c)
    rec(root)
    return out


def root_of(n):
    while getattr(n, '_parent', None) is not None:
        n = n._parent
    return n


def valid_uuid(x):
    try:
        return isinstance(x, str) and str(uuid.UUID(x)) == x
    except Exception:
        return False


# ---------------------------------------------------------------------------------------------
# run_clone
# ---------------------------------------------------------------------------------------------

def own_attributes(o):
    d = raw_snap(o, ids=False)
    d.pop('sections', None)
    d.pop('props', None)
    return d


def locate_difference(orig, copy, children, classes):
    """Stable label of the first place where the copy differs from the original (ids ignored), comparing object by
    object in list order: which attribute of which kind of object, and how the name of that object relates to ids."""
    def rec(o, c, top):
        where = 'copy root' if top else 'descendant'
        if kind_of(o) != kind_of(c):
            return 'kind of %s' % where
        a, b = own_attributes(o), own_attributes(c)
        for f in sorted(a):
            if a[f] != b.get(f, '<missing>'):
                return '%s of %s %s with %s' % (f.lstrip('_'), where, kind_of(o), classes.get(id(o), 'n/a'))
        if top and not children:
            return None
        for attr, what in (('_sections', 'sections'), ('_props', 'properties')):
            lo = list(list.__iter__(getattr(o, attr, [])))
            lc = list(list.__iter__(getattr(c, attr, [])))
            if len(lo) != len(lc):
                return 'number of %s of %s %s' % (what, where, kind_of(o))
            for x, y in zip(lo, lc):
                r = rec(x, y, False)
                if r:
                    return r
        return None
    return rec(orig, copy, True) or 'other'


def pairs(orig, copy):
    """(original container, copy container) pairs, position by position, as long as the shapes agree."""
    out = []

    def rec(o, c):
        if isinstance(o, BaseProperty) or kind_of(o) != kind_of(c):
            return
        out.append((o, c))
        lo, lc = list(list.__iter__(o._sections)), list(list.__iter__(c._sections))
        if len(lo) == len(lc):
            for x, y in zip(lo, lc):
                rec(x, y)
    rec(orig, copy)
    return out


def lookup_problems(orig, copy, classes, names=None):
    """Every sub-object of the copy must be found, through the public name lookup of the copy, under the name the
    corresponding object has in the original, and what is found must have the content of that original object.
    -> [(feature, detail)]"""
    out = []
    for o, c in pairs(orig, copy):
        for attr, pub, what in (('_sections', 'sections', 'section'), ('_props', 'properties', 'property')):
            if not hasattr(o, attr):
                continue
            for child in list.__iter__(getattr(o, attr)):
                nm = names[id(child)] if names is not None else child._name
                cls = '%s with %s' % (what, classes.get(id(child), 'n/a'))
                kind, lst = h.call(getattr, c, pub)
                if kind == 'exc':
                    out.append((cls, 'copy.%s raised %r' % (pub, lst)))
                    continue
                kind, found = h.call(lambda: lst[nm])
                if kind == 'exc':
                    out.append((cls, 'looking up %r (name in the original) among the %s of the copied %s raised %r; '
                                     'names there: %r' % (nm, pub, kind_of(c), found,
                                                          [x._name for x in list.__iter__(getattr(c, attr))])))
                    continue
                if not any(found is x for x in list.__iter__(getattr(c, attr))):
                    out.append((cls, 'lookup of %r returned %r which is not a child of the copied %s' % (nm, found, kind_of(c))))
                    continue
                kind, pubname = h.call(getattr, found, 'name')
                if kind == 'exc' or pubname != nm:
                    out.append((cls, 'object found under %r reports name %r' % (nm, pubname)))
                d = h.diff(h.freeze(own_attributes(child)), h.freeze(own_attributes(found)))
                if d:
                    out.append((cls, 'object found under %r differs from the original object of that name: %s' % (nm, d)))
                kind, isin = h.call(lambda: nm in lst)
                if kind == 'exc' or isin is not True:
                    out.append((cls, '%r in copy.%s gave %r' % (nm, pub, isin)))
    return out


def judge_clone(col, name, orig, copy, children, keep_id, witness, via='clone', classes=None, names=None):
    """All clauses of the clone contract for one (original, copy).
    names: id(obj) -> name of every object of the original recorded BEFORE the call (default: read now)."""
    k = kind_of(orig)
    base = {'kind': k, 'children': children, 'keep_id': keep_id}
    if classes is None:
        classes = name_classes(orig)

    def fail(clause, feature, detail):
        col.fail(check='%s/%s' % (name, clause), cls={'clause': clause, 'feature': feature},
                 witness=dict(witness, **base), detail=detail)

    if not isinstance(copy, type(orig)):
        fail('returns-same-kind', k, 'observed %r; contract requires a %s' % (copy, type(orig).__name__))
        return
    if getattr(copy, '_parent', None) is not None or copy.parent is not None:
        fail('detached', k, 'copy reports parent %r; contract requires None' % (copy.parent,))
    # equal, ids ignored
    exp = raw_snap(orig, ids=False)
    if not children:
        exp = without_children(exp)
    d = h.diff(h.freeze(exp), h.snap(copy, ids=False, parent=False))
    if d:
        fail('equal-content' if children else 'equal-attributes',
             '%s: %s' % (k, locate_difference(orig, copy, children, classes)),
             'first difference original vs copy: %s' % d)
    # the public name of the copy is the name of the original
    if k != 'document':
        want = names[id(orig)] if names is not None else orig._name
        kind, got = h.call(getattr, copy, 'name')
        if kind == 'exc' or got != want:
            fail('name-kept', '%s with %s' % (k, classes.get(id(orig), 'n/a')),
                 'copy.name is %r; the original is called %r' % (got, want))
    if not children:
        n = len(getattr(copy, '_sections', ())) + len(getattr(copy, '_props', ()))
        if n:
            fail('no-children', k, 'copy has %d children although children=False' % n)
    else:
        seen = set()
        for feature, detail in lookup_problems(orig, copy, classes, names):
            if feature not in seen:
                seen.add(feature)
                fail('lookup-by-original-name', '%s: %s' % (k, feature), detail)
    # every sub-object new
    shared = set(identities(orig)) & set(identities(copy))
    if shared:
        labels = identities(orig)
        what = sorted(labels[i] for i in shared)
        feat = sorted({''.join(ch for ch in w.split(' of ')[0].split(' /')[0].split(' <')[0] if not ch.isdigit()).strip()
                       for w in what})
        fail('sub-objects-new', '%s shares %s' % (k, '+'.join(feat)), 'objects shared with the original: %r' % (what[:6],))
    # ids
    oi, ci = id_list(orig), id_list(copy)
    if children and keep_id and oi != ci:
        fail('ids-kept', k, 'ids differ although keep_id=True: %r vs %r' % (oi[:4], ci[:4]))
    if not children and keep_id and ci[:1] != oi[:1]:
        fail('ids-kept', k, 'id differs although keep_id=True: %r vs %r' % (oi[:1], ci[:1]))
    if not keep_id:
        every = set(id_list(root_of(orig))) | set(oi)
        stale = [i for i in ci if i in every]
        if stale:
            where = 'root-id' if (ci[0] in every and len(stale) == 1) else 'descendant-ids'
            fail('ids-fresh', '%s %s' % (k, where),
                 '%d of %d ids in the copy are ids of the original (%r)' % (len(stale), len(ci), stale[:3]))
        if len(set(ci)) != len(ci):
            fail('ids-fresh', '%s duplicate-ids-in-copy' % k, 'ids in copy not pairwise distinct: %r' % (ci,))
    if not all(valid_uuid(i) for i in ci):
        fail('ids-wellformed', k, 'copy has a malformed id: %r' % (ci,))


def names_of(root):
    """id(obj) -> name, for every Section / Property of the tree (recorded before a call)."""
    secs, props = ([], []) if isinstance(root, BaseProperty) else h.walk(root)
    objs = secs + props + ([root] if not isinstance(root, BaseDocument) else [])
    return {id(o): o._name for o in objs}


def clone_call(node, children, keep_id):
    if isinstance(node, BaseProperty):
        return h.call(node.clone, keep_id=keep_id)
    return h.call(node.clone, children=children, keep_id=keep_id)


def run_clone(tier, seed):
    name = 'C11.clone'
    col = Col(name, rule='every node (Document, Section, Property) of every generated document as clone root x children in '
                         '{True, False} x keep_id in {True, False}, and the copy of a copy; documents: all forest shapes up '
                         'to N Sections x random rich fillings, documents with a resolved link, and the naming dimension '
                         '(every placement shape x every position/depth x 18 relations between the name of an object and '
                         'ids: unnamed in 6 ways, own id in other spellings, foreign uuids, id of another object; uniform; '
                         'random mixtures; the same loaded from XML/JSON/YAML files); distinct = (node kind, flags, has '
                         'children, has nested values, depth, name/id relation of the node, id-related names below, '
                         'linked, loaded, generation)', exhaustive=False)
    for wit, make in doc_makers(tier, seed):
        doc = make()
        classes = name_classes(doc)
        for node in all_nodes(doc):
            k = kind_of(node)
            flagsets = [(True, True), (True, False)] if k == 'property' else \
                [(True, True), (True, False), (False, True), (False, False)]
            for children, keep_id in flagsets:
                before_doc = h.snap(doc)
                before_node = h.snap(node)
                names = names_of(node)
                w = dict(wit, node=node_path(node))
                nested = k == 'property' and any(isinstance(v, list) for v in node._values)
                haskids = bool(getattr(node, '_sections', None)) or bool(getattr(node, '_props', None))
                key = (k, children, keep_id, haskids, nested, wit['linked'], depth_of(node),
                       classes.get(id(node), 'n/a'), subtree_trait(node, classes), bool(wit['loaded']))
                col.case(cls_key=key + (1,),
                         sample='%s %s children=%s keep_id=%s' % (wit['shape'], node_path(node), children, keep_id))
                kind, copy = clone_call(node, children, keep_id)
                if kind == 'exc':
                    col.fail(check=name + '/returns', cls={'clause': 'returns', 'feature': '%s %s' % (k, type(copy).__name__)},
                             witness=dict(w, children=children, keep_id=keep_id), detail='clone raised %r' % (copy,))
                else:
                    judge_clone(col, name, node, copy, children, keep_id, w, classes=classes, names=names)
                d = h.diff(before_doc, h.snap(doc)) or h.diff(before_node, h.snap(node))
                if d:
                    col.fail(check=name + '/original-untouched', cls={'clause': 'original-untouched', 'feature': k},
                             witness=dict(w, children=children, keep_id=keep_id),
                             detail='the call changed the original: %s' % d)
                # the copy of a copy (the copy is a detached tree of its own; its names still refer to ids of the first tree)
                if kind == 'ret' and isinstance(copy, type(node)) and (children or k == 'property'):
                    col.case(cls_key=key + (2,))
                    before_copy = h.snap(copy)
                    names2 = names_of(copy)
                    classes2 = name_classes(copy)
                    kind2, copy2 = clone_call(copy, children, keep_id)
                    w2 = dict(w, generation='copy of the copy')
                    if kind2 == 'exc':
                        col.fail(check=name + '/returns', cls={'clause': 'returns', 'feature': '%s %s' % (k, type(copy2).__name__)},
                                 witness=dict(w2, children=children, keep_id=keep_id), detail='clone of the copy raised %r' % (copy2,))
                    else:
                        judge_clone(col, name, copy, copy2, children, keep_id, w2, classes=classes2, names=names2)
                    d = h.diff(before_copy, h.snap(copy)) or h.diff(before_doc, h.snap(doc))
                    if d:
                        col.fail(check=name + '/original-untouched', cls={'clause': 'original-untouched', 'feature': k},
                                 witness=dict(w2, children=children, keep_id=keep_id),
                                 detail='cloning the copy changed the copy or the first original: %s' % d)
    _templates_part(col, name, tier, seed)
    cleanup_work()
    return col.result()


def _templates_part(col, name, tier, seed):
    """TemplateHandler.clone_section(url, name, children, keep_id) is the same contract on a loaded template."""
    import odml.templates as templates
    tdir = os.path.join(WORK, 'tpl-%d' % os.getpid())
    shutil.rmtree(tdir, ignore_errors=True)
    os.makedirs(os.path.join(tdir, 'tmp'))
    old_tmp = tempfile.tempdir
    tempfile.tempdir = os.path.join(tdir, 'tmp')
    try:
        makers = [m for m in doc_makers(tier, seed, max_secs=3, per_shape=1, naming='reduced')
                  if not m[0]['linked'] and not m[0]['loaded']]
        for n, (wit, make) in enumerate(makers):
            doc = make()
            if not doc._sections:
                continue
            fname = os.path.join(tdir, 'tpl_%d.xml' % n)
            kind, _ = h.call(odml.save, doc, fname, 'XML')
            if kind == 'exc':
                continue
            url = 'file://' + fname
            handler = templates.TemplateHandler()
            for top in list.__iter__(doc._sections):
                for children in (True, False):
                    for keep_id in (True, False):
                        kind, copy = h.call(handler.clone_section, url, top._name, children, keep_id)
                        w = dict(wit, node='/' + top._name, via='TemplateHandler.clone_section')
                        if kind == 'exc':
                            col.case(cls_key=('template', children, keep_id, bool(top._sections), bool(top._props)))
                            col.fail(check=name + '/returns', cls={'clause': 'returns', 'feature': 'template %s' % type(copy).__name__},
                                     witness=w, detail='clone_section raised %r' % (copy,))
                            continue
                        loaded = handler.get(url)
                        orig = next((s for s in list.__iter__(loaded._sections) if s._name == top._name), None)
                        if orig is None:
                            continue
                        classes = name_classes(loaded)
                        col.case(cls_key=('template', children, keep_id, bool(top._sections), bool(top._props),
                                          classes.get(id(orig), 'n/a'), subtree_trait(orig, classes)))
                        judge_clone(col, name, orig, copy, children, keep_id, w, classes=classes)
            os.remove(fname)
    finally:
        tempfile.tempdir = old_tmp
        shutil.rmtree(tdir, ignore_errors=True)


# ---------------------------------------------------------------------------------------------
# run_export_leaf
# ---------------------------------------------------------------------------------------------

def expected_leaf(chain):
    """Snapshot (dict) of the chain root..object with all Properties of each Section on it, original ids."""
    def rec(i):
        d = raw_snap(chain[i], ids=True)
        d['sections'] = (rec(i + 1),) if i + 1 < len(chain) else ()
        return d
    return rec(0)


def chain_lookup_problems(chain, node, res, classes):
    """Walk the result from its root by the names of the original chain (public lookups); every Property of every
    Section on the chain must be found under its original name with its original content and id.
    -> [(feature, detail)]"""
    out = []
    cur = res
    for sec in chain[1:]:
        cls = 'section with %s' % classes.get(id(sec), 'n/a')
        kind, found = h.call(lambda: cur.sections[sec._name])
        if kind == 'exc' or not isinstance(found, BaseSection):
            out.append((cls, 'looking up chain Section %r in the result gave %r' % (sec._name, found)))
            return out
        if found.name != sec._name or found.id != sec._id:
            out.append((cls, 'chain Section %r / id %r is %r / %r in the result' % (sec._name, sec._id, found.name, found.id)))
        for p in list.__iter__(sec._props):
            pcls = 'property with %s' % classes.get(id(p), 'n/a')
            kind, fp = h.call(lambda: found.properties[p._name])
            if kind == 'exc' or not isinstance(fp, BaseProperty):
                out.append((pcls, 'looking up Property %r of chain Section %r in the result gave %r' % (p._name, sec._name, fp)))
                continue
            d = h.diff(h.snap(p, ids=True, parent=False), h.snap(fp, ids=True, parent=False))
            if d or fp.name != p._name:
                out.append((pcls, 'Property %r found in the result differs from the original: %s' % (p._name, d)))
        cur = found
    return out


def run_export_leaf(tier, seed):
    name = 'C11.export_leaf'
    col = Col(name, rule='every Section and every Property of every generated document (same documents as C11.clone, '
                         'including the naming dimension and documents loaded from files) as export root; distinct = '
                         '(node kind, depth, siblings present, properties on the chain, name/id relation of the node, '
                         'id-related names on the chain, linked, loaded)', exhaustive=False)
    for wit, make in doc_makers(tier, seed):
        doc = make()
        classes = name_classes(doc)
        secs, props = h.walk(doc)
        for node in secs + props:
            k = kind_of(node)
            last = node if k == 'section' else node._parent
            chain = []
            x = last
            while x is not None:
                chain.insert(0, x)
                x = getattr(x, '_parent', None)
            exp = h.freeze(expected_leaf(chain))
            before = h.snap(doc)
            w = dict(wit, node=node_path(node))
            on_chain = [c for c in chain[1:]] + [p for c in chain[1:] for p in list.__iter__(c._props)]
            col.case(cls_key=(k, len(chain), any(len(c._sections) > 1 for c in chain),
                              sum(len(getattr(c, '_props', ())) for c in chain) > 0, wit['linked'],
                              classes.get(id(node), 'n/a'),
                              any(classes.get(id(o)) not in ('plain-name', 'odd-name') for o in on_chain if o is not node),
                              bool(wit['loaded'])),
                     sample='%s %s' % (wit['shape'], node_path(node)))
            kind, res = h.call(node.export_leaf)
            if kind == 'exc':
                col.fail(check=name + '/returns', cls={'clause': 'returns', 'feature': '%s %s' % (k, type(res).__name__)},
                         witness=w, detail='export_leaf raised %r' % (res,))
                continue
            if not isinstance(res, BaseDocument):
                col.fail(check=name + '/root-is-document', cls={'clause': 'root-is-document', 'feature': k}, witness=w,
                         detail='observed %r; the root of the chain is the Document' % (res,))
                continue
            d = h.diff(exp, h.snap(res, ids=True, parent=False))
            if d:
                col.fail(check=name + '/exact-chain', cls={'clause': 'exact-chain', 'feature': k}, witness=w,
                         detail='first difference expected chain vs result: %s' % d)
            seen = set()
            for feature, detail in chain_lookup_problems(chain, node, res, classes):
                if feature not in seen:
                    seen.add(feature)
                    col.fail(check=name + '/lookup-by-original-name',
                             cls={'clause': 'lookup-by-original-name', 'feature': '%s: %s' % (k, feature)},
                             witness=w, detail=detail)
            shared = set(identities(doc)) & set(identities(res))
            if shared:
                labels = identities(doc)
                col.fail(check=name + '/is-a-copy', cls={'clause': 'is-a-copy', 'feature': k}, witness=w,
                         detail='objects shared with the original: %r' % (sorted(labels[i] for i in shared)[:6],))
            probs = h.wellformed(res)
            if res.parent is not None or probs:
                col.fail(check=name + '/detached-wellformed', cls={'clause': 'detached-wellformed', 'feature': k}, witness=w,
                         detail='result not a well-formed detached tree: %r' % (probs[:3],))
            d = h.diff(before, h.snap(doc))
            if d:
                col.fail(check=name + '/original-untouched', cls={'clause': 'original-untouched', 'feature': k}, witness=w,
                         detail='the call changed the original: %s' % d)
    cleanup_work()
    return col.result()


# ---------------------------------------------------------------------------------------------
# edit operations (public API only); each returns a label or None when not applicable
# ---------------------------------------------------------------------------------------------

NEWVALS = {
    'string': ['n1', 'n2'], 'text': ['nt\n1', 'nt2'], 'int': [41, 42], 'float': [4.5, 5.5], 'boolean': [True, False],
    'date': [dt.date(2021, 2, 3), dt.date(2022, 3, 4)], 'time': [dt.time(1, 2, 3), dt.time(4, 5, 6)],
    'datetime': [dt.datetime(2021, 2, 3, 4, 5, 6), dt.datetime(2022, 1, 1, 1, 1, 1)],
    'url': ['http://n.org/1', 'http://n.org/2'], 'person': ['New, P', 'Other, Q'],
    '2-tuple': ['(7;8)', '(9;0)'], '3-tuple': ['(x;y;z)', '(u;v;w)'],
}


def _props(root):
    if isinstance(root, BaseProperty):
        return [root]
    return h.walk(root)[1]


def _secs(root, with_root=True):
    if isinstance(root, BaseProperty):
        return []
    secs = h.walk(root)[0]
    if with_root and isinstance(root, BaseSection):
        secs = [root] + secs
    return secs


def _holders(root):
    if isinstance(root, BaseProperty):
        return []
    return [root] + h.walk(root)[0]


def _nv(p, rnd):
    return NEWVALS.get(p._dtype, ['n1', 'n2'])


def op_values_set(rnd, root):
    ps = _props(root)
    if not ps:
        return None
    p = rnd.choice(ps)
    h.call(setattr, p, 'values', list(_nv(p, rnd)))
    return 'values-set'


def op_value_append(rnd, root):
    ps = _props(root)
    if not ps:
        return None
    p = rnd.choice(ps)
    h.call(p.append, _nv(p, rnd)[0])
    return 'value-append'


def op_value_extend(rnd, root):
    ps = _props(root)
    if not ps:
        return None
    p = rnd.choice(ps)
    h.call(p.extend, list(_nv(p, rnd)))
    return 'value-extend'


def op_value_setitem(rnd, root):
    ps = [p for p in _props(root) if p._values]
    if not ps:
        return None
    p = rnd.choice(ps)
    h.call(p.__setitem__, 0, _nv(p, rnd)[1])
    return 'value-setitem'


def op_value_remove(rnd, root):
    ps = [p for p in _props(root) if p._values]
    if not ps:
        return None
    p = rnd.choice(ps)
    h.call(p.remove, p._values[0])
    return 'value-remove'


def op_value_insert(rnd, root):
    ps = _props(root)
    if not ps:
        return None
    p = rnd.choice(ps)
    h.call(p.insert, 0, _nv(p, rnd)[1])
    return 'value-insert'


def op_value_inner_edit(rnd, root):
    """Edit in place a nested value reached through the public item access p[i]."""
    ps = [p for p in _props(root) if any(isinstance(v, list) for v in p._values)]
    if not ps:
        return None
    p = rnd.choice(ps)

    def edit():
        v = p[0]
        v[0] = 'EDIT'
        v.append('MORE')
    h.call(edit)
    return 'value-inner-edit'


def op_returned_list_edit(rnd, root):
    ps = [p for p in _props(root)]
    if not ps:
        return None
    p = rnd.choice(ps)

    def edit():
        v = p.values
        v.append('X')
        if v and isinstance(v[0], list):
            v[0].append('Y')
        del v[0]
    h.call(edit)
    return 'returned-list-edit'


def op_dtype(rnd, root):
    ps = _props(root)
    if not ps:
        return None
    p = rnd.choice(ps)
    h.call(setattr, p, 'dtype', rnd.choice(['string', 'text', 'float']))
    return 'dtype-change'


def op_prop_attr(rnd, root):
    ps = _props(root)
    if not ps:
        return None
    p = rnd.choice(ps)
    attr, val = rnd.choice([('unit', 'kg'), ('uncertainty', 9.5), ('definition', 'edited def'), ('reference', 'edited ref'),
                            ('value_origin', 'edited.dat'), ('dependency', 'edep'), ('dependency_value', 'edv'),
                            ('unit', None), ('definition', None)])
    h.call(setattr, p, attr, val)
    return 'property-attribute'


def op_sec_attr(rnd, root):
    ss = _secs(root)
    if not ss:
        return None
    s = rnd.choice(ss)
    attr, val = rnd.choice([('definition', 'edited sdef'), ('reference', 'edited sref'), ('type', 'edited/type'),
                            ('definition', None), ('repository', None)])
    h.call(setattr, s, attr, val)
    return 'section-attribute'


def op_doc_attr(rnd, root):
    if not isinstance(root, BaseDocument):
        return None
    attr, val = rnd.choice([('author', 'edited author'), ('version', 'e9'), ('date', dt.date(2001, 1, 1)), ('author', None)])
    h.call(setattr, root, attr, val)
    return 'document-attribute'


def op_rename(rnd, root):
    cands = _secs(root) + _props(root)
    if not cands:
        return None
    x = rnd.choice(cands)
    h.call(setattr, x, 'name', 'ren%d' % rnd.randrange(1000))
    return 'rename-%s' % kind_of(x)


def op_rename_default(rnd, root):
    """Take the name away: the object is then named after its id."""
    cands = _secs(root) + _props(root)
    if not cands:
        return None
    x = rnd.choice(cands)
    h.call(setattr, x, 'name', rnd.choice([None, '']))
    return 'rename-to-default-%s' % kind_of(x)


def op_rename_to_id(rnd, root):
    """Name an object after the id of another object of the same tree / after its own id in another spelling."""
    cands = _secs(root) + _props(root)
    if not cands:
        return None
    x = rnd.choice(cands)
    other = rnd.choice(_holders(root) + _props(root))
    h.call(setattr, x, 'name', rnd.choice([other._id, x._id.upper(), x._id]))
    return 'rename-to-id-%s' % kind_of(x)


def op_new_id(rnd, root):
    cands = _holders(root) + _props(root)
    x = rnd.choice(cands)
    h.call(x.new_id)
    return 'new-id'


def op_remove_child(rnd, root):
    cands = [c for c in _secs(root, with_root=False) + _props(root) if c is not root and c._parent is not None]
    if not cands:
        return None
    c = rnd.choice(cands)
    if rnd.random() < 0.5:
        h.call(c._parent.remove, c)
    else:
        h.call(setattr, c, 'parent', None)
    return 'remove-%s' % kind_of(c)


def op_add_section(rnd, root):
    hs = _holders(root)
    if not hs:
        return None
    par = rnd.choice(hs)
    nm = 'new%d' % rnd.randrange(1000)
    how = rnd.choice(['ctor', 'append', 'insert', 'create', 'extend'])
    with h.quiet():
        if how == 'ctor':
            h.call(odml.Section, name=nm, type='nt', parent=par)
        elif how == 'append':
            h.call(par.append, odml.Section(name=nm, type='nt'))
        elif how == 'insert':
            h.call(par.insert, 0, odml.Section(name=nm, type='nt'))
        elif how == 'create':
            h.call(par.create_section, nm, 'nt')
        else:
            h.call(par.extend, [odml.Section(name=nm, type='nt'), odml.Section(name=nm + 'x', type='nt')])
    return 'add-section'


def op_add_property(rnd, root):
    ss = _secs(root)
    if not ss:
        return None
    par = rnd.choice(ss)
    nm = 'newp%d' % rnd.randrange(1000)
    how = rnd.choice(['ctor', 'append', 'insert', 'create'])
    with h.quiet():
        if how == 'ctor':
            h.call(odml.Property, name=nm, values=[1, 2], parent=par)
        elif how == 'append':
            h.call(par.append, odml.Property(name=nm, values=['q']))
        elif how == 'insert':
            h.call(par.insert, 0, odml.Property(name=nm, values=[1.5]))
        else:
            h.call(par.create_property, nm, ['(1;2)'], '2-tuple')
    return 'add-property'


def _inside(x, y):
    """x is y or lies below y."""
    while x is not None:
        if x is y:
            return True
        x = getattr(x, '_parent', None)
    return False


def op_move(rnd, root):
    movable = [c for c in _secs(root, with_root=False) if c is not root]
    if not movable:
        return None
    c = rnd.choice(movable)
    targets = [t for t in _holders(root) if not _inside(t, c) and t is not c._parent]
    if not targets:
        return None
    h.call(setattr, c, 'parent', rnd.choice(targets))
    return 'move-section'


def op_move_property(rnd, root):
    ps = [p for p in _props(root) if p is not root]
    ss = _secs(root)
    if not ps or len(ss) < 2:
        return None
    p = rnd.choice(ps)
    h.call(setattr, p, 'parent', rnd.choice([s for s in ss if s is not p._parent]))
    return 'move-property'


def op_reorder(rnd, root):
    cands = [c for c in _secs(root, with_root=False) + _props(root) if c is not root and c._parent is not None]
    if not cands:
        return None
    h.call(rnd.choice(cands).reorder, 0)
    return 'reorder'


def op_sort(rnd, root):
    hs = _holders(root)
    if not hs:
        return None
    x = rnd.choice(hs)
    h.call(x.sections.sort, reverse=True)
    if isinstance(x, BaseSection):
        h.call(x.properties.sort, reverse=True)
    return 'sort-children'


def op_replace_child(rnd, root):
    hs = [x for x in _holders(root) if len(x._sections)]
    if not hs:
        return None
    x = rnd.choice(hs)
    with h.quiet():
        h.call(x.sections.__setitem__, 0, odml.Section(name='repl%d' % rnd.randrange(1000), type='nt'))
    return 'replace-child'


def op_cardinality(rnd, root):
    cands = _secs(root) + _props(root)
    if not cands:
        return None
    x = rnd.choice(cands)
    val = rnd.choice([None, (1, 3), 2, (None, 5), (2, None)])
    if isinstance(x, BaseProperty):
        if rnd.random() < 0.5:
            h.call(setattr, x, 'val_cardinality', val)
        else:
            h.call(x.set_values_cardinality, 1, 4)
    else:
        if rnd.random() < 0.5:
            h.call(setattr, x, rnd.choice(['sec_cardinality', 'prop_cardinality']), val)
        else:
            h.call(rnd.choice([x.set_sections_cardinality, x.set_properties_cardinality]), 0, 7)
    return 'cardinality'


def op_merge(rnd, root):
    ss = _secs(root)
    if not ss:
        return None
    s = rnd.choice(ss)
    with h.quiet():
        other = odml.Section(name='m', type='mt', definition='merged def')
        odml.Property(name='mp', values=[5], parent=other)
        odml.Section(name='msub', type='mt', parent=other)
    h.call(s.merge, other, False)
    return 'merge'


def op_clean(rnd, root):
    if isinstance(root, BaseProperty):
        return None
    h.call(root.clean)
    return 'clean'


OPS = [op_values_set, op_value_append, op_value_extend, op_value_setitem, op_value_remove, op_value_insert,
       op_value_inner_edit, op_returned_list_edit, op_dtype, op_prop_attr, op_sec_attr, op_doc_attr, op_rename,
       op_rename_default, op_rename_to_id, op_new_id, op_remove_child, op_add_section, op_add_property, op_move, op_move_property, op_reorder, op_sort,
       op_replace_child, op_cardinality, op_merge, op_clean]


def edit_sequence(rnd, target, observed, length):
    """Apply `length` random edits to the tree `target`; after each one `observed()` must be unchanged.
    Returns (labels applied, first difference or None)."""
    before = observed()
    labels = []
    for _ in range(length):
        for _try in range(6):
            lab = rnd.choice(OPS)(rnd, target)
            if lab:
                break
        else:
            break
        labels.append(lab)
        d = h.diff(before, observed())
        if d:
            return labels, d
    return labels, None


def every_op_once(rnd, target, observed, first=()):
    """Apply every applicable operation once (the ones in `first`, then the rest in random order);
    `observed()` must stay unchanged."""
    before = observed()
    labels = []
    ops = [o for o in OPS if o not in first]
    rnd.shuffle(ops)
    ops = list(first) + ops
    for op in ops:
        lab = op(rnd, target)
        if not lab:
            continue
        labels.append(lab)
        d = h.diff(before, observed())
        if d:
            return labels, d
    return labels, None


# ---------------------------------------------------------------------------------------------
# run_independence
# ---------------------------------------------------------------------------------------------

def _index_of(doc, node):
    nodes = all_nodes(doc)
    return next(i for i, n in enumerate(nodes) if n is node)


def run_independence(tier, seed):
    name = 'C11.independence'
    col = Col(name, rule='(way the copy was obtained: clone x flags | export_leaf | list returned by values | list '
                         'passed as values (setter, constructor)) x node x direction (edit copy / edit original) x '
                         'random edit sequence drawn from 27 operations (value edits, attribute edits, renames incl. taking the name away and naming after an id, new ids, '
                         'add/remove/move/reorder/replace children, cardinalities, merge, clean), checked after every '
                         'edit; documents as in C11.clone with a reduced naming dimension; distinct = (way, node kind, direction, has nested values, name/id relation of the node, loaded)', exhaustive=False)
    rnd = random.Random('c11-ind-%s' % seed)
    seq_len = 8 if tier == 'quick' else 14
    makers = doc_makers(tier, seed, max_secs=4 if tier == 'quick' else 5, per_shape=2 if tier == 'quick' else 3,
                         naming='reduced')

    # ---- tree copies: clone and export_leaf
    for wit, make in makers:
        probe = make()
        n_nodes = len(all_nodes(probe))
        for idx in range(n_nodes):
            k = kind_of(all_nodes(probe)[idx])
            ways = [('clone', True, False), ('clone', True, True)]
            if k != 'property':
                ways.append(('clone', False, False))
            if k != 'document':
                ways.append(('export_leaf', None, None))
            for way, children, keep_id in ways:
                for direction in ('edit-copy', 'edit-original'):
                    doc = make()
                    node = all_nodes(doc)[idx]
                    if way == 'clone':
                        kind, copy = h.call(node.clone, keep_id=keep_id) if k == 'property' else \
                            h.call(node.clone, children=children, keep_id=keep_id)
                    else:
                        kind, copy = h.call(node.export_leaf)
                    if kind == 'exc':
                        continue        # reported by run_clone / run_export_leaf
                    nested = any(isinstance(v, list) for p in _props(node) for v in p._values)
                    col.case(cls_key=(way, children, keep_id, k, direction, nested, wit['linked'],
                                      name_classes(doc).get(id(node), 'n/a'), bool(wit['loaded'])),
                             sample='%s %s %s %s' % (wit['shape'], node_path(node), way, direction))
                    if direction == 'edit-copy':
                        target, observed = copy, (lambda doc=doc: h.snap(doc))
                    else:
                        # edit the whole original document, not only the node
                        target, observed = doc, (lambda copy=copy: h.snap(copy))
                    if rnd.random() < 0.5:
                        labels, d = every_op_once(rnd, target, observed)
                    else:
                        labels, d = edit_sequence(rnd, target, observed, seq_len)
                    if d:
                        col.fail(check='%s/%s' % (name, direction),
                                 cls={'clause': direction + '-leaves-other-unchanged',
                                      'feature': '%s of %s after %s' % (way, k, edit_class(labels[-1]))},
                                 witness=dict(wit, node=node_path(node), way=way, children=children, keep_id=keep_id, edits=labels),
                                 detail='the %s changed: %s' % ('original' if direction == 'edit-copy' else 'copy', d))

    # ---- lists returned by `values` and lists passed in as `values`
    pool = [(dtype, list(vals)) for dtype, vlists in h.VALUE_POOL.items() for vals in vlists]
    pool += [('2-tuple', [['1', '2'], ['3', '4']]), ('3-tuple', [['a', 'b', 'c']]), ('string', ['[a,b]']),
             ('int', ['1', '2']), ('float', [1, 2])]
    for dtype, vals in pool:
        nested_in = any(isinstance(v, list) for v in vals)
        for way in ('values-getter', 'values-setter', 'constructor'):
            for direction in ('edit-list', 'edit-property'):
                with h.quiet():
                    sec = odml.Section(name='s', type='t')
                    if way == 'constructor':
                        lst = _deep(vals)
                        kind, p = h.call(odml.Property, name='p', dtype=dtype, values=lst, parent=sec)
                    else:
                        kind, p = h.call(odml.Property, name='p', dtype=dtype, values=_deep(vals), parent=sec)
                        if kind == 'ret' and way == 'values-setter':
                            lst = _deep(vals)
                            kind, _ = h.call(setattr, p, 'values', lst)
                        elif kind == 'ret':
                            kind, lst = h.call(lambda: p.values)
                if kind == 'exc':
                    continue
                nested = any(isinstance(v, list) for v in p._values)
                col.case(cls_key=(way, dtype, direction, nested, nested_in, len(vals) > 1),
                         sample='%s %s %r %s' % (way, dtype, vals, direction))
                if direction == 'edit-list':
                    before = h.snap(sec)
                    labels = []
                    d = None
                    for lab, fn in list_edits(lst):
                        h.call(fn)
                        labels.append(lab)
                        d = h.diff(before, h.snap(sec))
                        if d:
                            break
                    changed = 'property'
                else:
                    before = h.snap(lst)
                    labels, d = every_op_once(rnd, sec, lambda lst=lst: h.snap(lst),
                                             first=(op_value_inner_edit, op_returned_list_edit))
                    changed = 'list'
                if d:
                    col.fail(check='%s/%s' % (name, way),
                             cls={'clause': '%s-%s-leaves-%s-unchanged' % (way, direction, changed),
                                  'feature': '%s after %s' % ('nested-value' if nested else 'flat-value', edit_class(labels[-1]))},
                             witness={'dtype': dtype, 'values': repr(vals), 'way': way, 'edits': labels},
                             detail='the %s changed: %s' % (changed, d))
    cleanup_work()
    return col.result()


NESTED_EDITS = ('value-inner-edit', 'returned-list-edit', 'nested-setitem', 'nested-append')


def edit_class(label):
    """Stable class of the edit that revealed a dependence (several edits reveal the same sharing)."""
    if label in NESTED_EDITS:
        return 'in-place-edit-of-nested-value'
    if label.startswith('value') or label in ('dtype-change',):
        return 'value-edit'
    if label.endswith('attribute'):
        return 'attribute-edit'
    if label.startswith('rename'):
        return 'rename'
    if label.startswith(('remove', 'add', 'move', 'reorder', 'sort', 'replace')):
        return 'structural-edit'
    return label


def _deep(v):
    return [_deep(x) for x in v] if isinstance(v, list) else v


def list_edits(lst):
    """Edits of a plain Python list handed out by / handed to the library."""
    out = [('list-append', lambda: lst.append('X'))]
    if lst:
        if isinstance(lst[0], list):
            out.append(('nested-setitem', lambda: lst[0].__setitem__(0, 'EDIT')))
            out.append(('nested-append', lambda: lst[0].append('MORE')))
        out.append(('list-setitem', lambda: lst.__setitem__(0, 'Z')))
        out.append(('list-reverse', lst.reverse))
        out.append(('list-delitem', lambda: lst.__delitem__(0)))
    out.append(('list-clear', lambda: lst.__delitem__(slice(None))))
    return out
